package rfc3986

import (
	"math/rand"
	"net/url"
	"strings"
	"testing"
)

func TestRemoveDotSegments(t *testing.T) {
	for in, want := range map[string]string{
		"/a/b/c/./../../g":   "/a/g",
		"mid/content=5/../6": "mid/6",
		"/a/..":              "/",
		"/a/../":             "/",
		"/..":                "/",
		"/../a":              "/a",
		"/./a":               "/a",
		"/a/.":               "/a/",
		"/a/b/../../../c":    "/c",
		"":                   "",
		"/":                  "/",
		"..":                 "",
		"a/..":               "/",
		"/a//../b":           "/a/b",
	} {
		if got := RemoveDotSegments(in); got != want {
			t.Errorf("RemoveDotSegments(%q) = %q want %q", in, got, want)
		}
	}
}

func TestSplit(t *testing.T) {
	p := Split("https://h:1/p/q?x=1#f")
	if p.Scheme != "https" || p.Authority != "h:1" || p.Path != "/p/q" || p.Query != "x=1" || p.Fragment != "f" {
		t.Fatalf("%+v", p)
	}
	p = Split("//h/p#f?x")
	if p.HasScheme || p.Authority != "h" || p.Path != "/p" || p.HasQuery || p.Fragment != "f?x" {
		t.Fatalf("%+v", p)
	}
	p = Split("/a:b?")
	if p.HasScheme || p.HasAuthority || p.Path != "/a:b" || !p.HasQuery || p.Query != "" {
		t.Fatalf("%+v", p)
	}
	p = Split("about:blank#x")
	if p.Scheme != "about" || p.Path != "blank" || p.Fragment != "x" {
		t.Fatalf("%+v", p)
	}
}

// self-test against net/url where defined to agree
func TestEncodeDecodeAgainstStdlib(t *testing.T) {
	r := rand.New(rand.NewSource(3))
	for i := 0; i < 100000; i++ {
		n := r.Intn(10)
		b := make([]byte, n)
		for j := range b {
			b[j] = byte(r.Intn(256))
		}
		s := string(b)
		e := EncodeUnreservedOnly(s)
		d, err := url.PathUnescape(e)
		if err != nil || d != s || Decode(e) != s {
			t.Fatalf("round trip %q -> %q -> %q %v", s, e, d, err)
		}
		// PathEscape keeps $&+,:;=@ unescaped and agrees elsewhere
		pe := url.PathEscape(s)
		if UpperHex(EncodeUnreservedOnly(Decode(pe))) != UpperHex(e) {
			t.Fatalf("encode mismatch %q: %q vs %q", s, pe, e)
		}
		for k := 0; k < len(e); k++ {
			if !Unreserved(e[k]) && e[k] != '%' {
				t.Fatalf("byte %q in %q", e[k], e)
			}
		}
		_ = strings.ToLower
	}
}
