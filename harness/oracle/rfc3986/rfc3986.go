// Package rfc3986 holds small reference routines written from RFC 3986:
// the unreserved-only percent-encoder, a percent-decoder, remove_dot_segments
// (section 5.2.4) and the appendix-B component splitter (total on all inputs).
package rfc3986

import "strings"

const hexL = "0123456789abcdef"

// Unreserved reports ALPHA / DIGIT / "-" / "." / "_" / "~".
func Unreserved(c byte) bool {
	return 'a' <= c && c <= 'z' || 'A' <= c && c <= 'Z' || '0' <= c && c <= '9' || c == '-' || c == '.' || c == '_' || c == '~'
}

// EncodeUnreservedOnly percent-encodes every byte outside the unreserved set (lower-case hex).
func EncodeUnreservedOnly(s string) string {
	var b strings.Builder
	for i := 0; i < len(s); i++ {
		c := s[i]
		if Unreserved(c) {
			b.WriteByte(c)
		} else {
			b.WriteByte('%')
			b.WriteByte(hexL[c>>4])
			b.WriteByte(hexL[c&15])
		}
	}
	return b.String()
}

func hexVal(c byte) int {
	switch {
	case '0' <= c && c <= '9':
		return int(c - '0')
	case 'a' <= c && c <= 'f':
		return int(c-'a') + 10
	case 'A' <= c && c <= 'F':
		return int(c-'A') + 10
	}
	return -1
}

// IsEscape reports whether s[i:] starts a valid %XX triplet.
func IsEscape(s string, i int) bool {
	return i+2 < len(s) && s[i] == '%' && hexVal(s[i+1]) >= 0 && hexVal(s[i+2]) >= 0
}

// Decode percent-decodes valid triplets and leaves everything else alone.
func Decode(s string) string {
	var b strings.Builder
	for i := 0; i < len(s); i++ {
		if IsEscape(s, i) {
			b.WriteByte(byte(hexVal(s[i+1])<<4 | hexVal(s[i+2])))
			i += 2
		} else {
			b.WriteByte(s[i])
		}
	}
	return b.String()
}

// UpperHex upper-cases the hex digits of valid triplets (case-insensitive comparison of encodings).
func UpperHex(s string) string {
	b := []byte(s)
	for i := 0; i < len(b); i++ {
		if IsEscape(s, i) {
			for k := 1; k <= 2; k++ {
				if 'a' <= b[i+k] && b[i+k] <= 'f' {
					b[i+k] -= 32
				}
			}
			i += 2
		}
	}
	return string(b)
}

// Parts is the appendix-B decomposition.
type Parts struct {
	Scheme, Authority, Path, Query, Fragment       string
	HasScheme, HasAuthority, HasQuery, HasFragment bool
}

// Split implements ^(([^:/?#]+):)?(//([^/?#]*))?([^?#]*)(\?([^#]*))?(#(.*))? by hand.
func Split(u string) Parts {
	var p Parts
	// scheme
	for i := 0; i < len(u); i++ {
		c := u[i]
		if c == ':' {
			if i > 0 {
				p.Scheme, p.HasScheme = u[:i], true
				u = u[i+1:]
			}
			break
		}
		if c == '/' || c == '?' || c == '#' {
			break
		}
	}
	if strings.HasPrefix(u, "//") {
		rest := u[2:]
		j := strings.IndexAny(rest, "/?#")
		if j < 0 {
			j = len(rest)
		}
		p.Authority, p.HasAuthority = rest[:j], true
		u = rest[j:]
	}
	j := strings.IndexAny(u, "?#")
	if j < 0 {
		p.Path = u
		return p
	}
	p.Path = u[:j]
	u = u[j:]
	if u[0] == '?' {
		k := strings.IndexByte(u, '#')
		if k < 0 {
			p.Query, p.HasQuery = u[1:], true
			return p
		}
		p.Query, p.HasQuery = u[1:k], true
		u = u[k:]
	}
	p.Fragment, p.HasFragment = u[1:], true
	return p
}

// RemoveDotSegments implements RFC 3986 section 5.2.4.
func RemoveDotSegments(in string) string {
	var out []string // output buffer as segments each beginning with "/" (or a first segment without)
	for len(in) > 0 {
		switch {
		case strings.HasPrefix(in, "../"):
			in = in[3:]
		case strings.HasPrefix(in, "./"):
			in = in[2:]
		case strings.HasPrefix(in, "/./"):
			in = in[2:]
		case in == "/.":
			in = "/"
		case strings.HasPrefix(in, "/../"):
			in = in[3:]
			if len(out) > 0 {
				out = out[:len(out)-1]
			}
		case in == "/..":
			in = "/"
			if len(out) > 0 {
				out = out[:len(out)-1]
			}
		case in == "." || in == "..":
			in = ""
		default:
			st := 0
			if in[0] == '/' {
				st = 1
			}
			j := strings.IndexByte(in[st:], '/')
			if j < 0 {
				out = append(out, in)
				in = ""
			} else {
				out = append(out, in[:st+j])
				in = in[st+j:]
			}
		}
	}
	return strings.Join(out, "")
}

// IsDotSegment reports whether a path segment is "." or ".." as a browser
// sees it: %2e in any case is equivalent to "." (WHATWG URL single/double-dot
// path segment).
func IsDotSegment(seg string) (single, double bool) {
	s := strings.ToLower(seg)
	s = strings.ReplaceAll(s, "%2e", ".")
	return s == ".", s == ".."
}
