// Package csssyn is a small, spec-faithful implementation of CSS Syntax
// Module Level 3 (W3C CR): input preprocessing (§3.3), tokenization (§4) and
// the generic parsing algorithms (§5). It is intended as an independent test
// oracle: it favours a literal transcription of the spec prose over speed.
//
// Deviations from the spec, all deliberate:
//   - Comments are surfaced as Comment pseudo-tokens by Tokenize. The parser
//     entry points drop them (recording their source text in
//     Token.LeadingComments of the following token).
//   - There is no EOF token; the end of the token slice is EOF.
package csssyn

import (
	"strconv"
	"strings"
)

// Kind is a token type.
type Kind int

const (
	Ident Kind = iota
	Function
	AtKeyword
	Hash
	String
	BadString
	URL
	BadURL
	Delim
	Number
	Percentage
	Dimension
	Whitespace
	CDO
	CDC
	Colon
	Semicolon
	Comma
	LBracket
	RBracket
	LParen
	RParen
	LBrace
	RBrace
	// Comment is NOT a spec token: comments are surfaced as tokens so the
	// oracle can see them; the parser functions skip them.
	Comment
)

var kindNames = [...]string{
	Ident: "ident", Function: "function", AtKeyword: "at-keyword", Hash: "hash",
	String: "string", BadString: "bad-string", URL: "url", BadURL: "bad-url",
	Delim: "delim", Number: "number", Percentage: "percentage", Dimension: "dimension",
	Whitespace: "whitespace", CDO: "CDO", CDC: "CDC", Colon: "colon",
	Semicolon: "semicolon", Comma: "comma", LBracket: "[", RBracket: "]",
	LParen: "(", RParen: ")", LBrace: "{", RBrace: "}", Comment: "comment",
}

func (k Kind) String() string {
	if k >= 0 && int(k) < len(kindNames) {
		return kindNames[k]
	}
	return "kind(" + strconv.Itoa(int(k)) + ")"
}

// Token is a CSS token.
type Token struct {
	Kind Kind
	// Ident/Function/AtKeyword/Hash: the name (escapes decoded);
	// String/URL: the decoded value; Delim: the code point as string;
	// Number/Percentage/Dimension: the number's source representation;
	// Comment: comment body (without /* and */).
	Value        string
	Unit         string // Dimension only (escapes decoded)
	HashIsID     bool   // Hash "id" type flag
	Raw          string // exact source slice (of the preprocessed input)
	Start, End   int    // byte offsets into the preprocessed input
	Unterminated bool   // String, URL or Comment ended by EOF

	// Extras (not in the required API).
	NumIsInteger bool    // Number/Percentage/Dimension: type flag is "integer"
	Num          float64 // Number/Percentage/Dimension: numeric value
	// LeadingComments is only set by the parser entry points: the raw source
	// text of the comment(s) that immediately preceded this token and were
	// dropped from the token stream.
	LeadingComments string
}

const eof rune = -1

// Preprocess implements §3.3 on top of a WHATWG-style UTF-8 decode of s:
// CRLF, CR, FF → LF; NUL and surrogate code points → U+FFFD. Invalid UTF-8 is
// decoded to U+FFFD exactly as the WHATWG Encoding Standard's UTF-8 decoder
// does (one U+FFFD per maximal invalid subpart). No BOM stripping is done.
func Preprocess(s string) string {
	var b strings.Builder
	b.Grow(len(s))
	var (
		needed, seen int
		cp           rune
		lower, upper byte = 0x80, 0xBF
		prevCR       bool
	)
	emit := func(r rune) {
		switch {
		case r == '\r':
			b.WriteByte('\n')
			prevCR = true
			return
		case r == '\n':
			if !prevCR {
				b.WriteByte('\n')
			}
		case r == '\f':
			b.WriteByte('\n')
		case r == 0, r >= 0xD800 && r <= 0xDFFF:
			b.WriteRune(0xFFFD)
		default:
			b.WriteRune(r)
		}
		prevCR = false
	}
	for i := 0; i < len(s); i++ {
		c := s[i]
		if needed == 0 {
			switch {
			case c <= 0x7F:
				emit(rune(c))
			case c >= 0xC2 && c <= 0xDF:
				needed, cp = 1, rune(c&0x1F)
			case c >= 0xE0 && c <= 0xEF:
				if c == 0xE0 {
					lower = 0xA0
				}
				if c == 0xED {
					upper = 0x9F
				}
				needed, cp = 2, rune(c&0x0F)
			case c >= 0xF0 && c <= 0xF4:
				if c == 0xF0 {
					lower = 0x90
				}
				if c == 0xF4 {
					upper = 0x8F
				}
				needed, cp = 3, rune(c&0x07)
			default:
				emit(0xFFFD)
			}
			continue
		}
		if c < lower || c > upper {
			cp, needed, seen = 0, 0, 0
			lower, upper = 0x80, 0xBF
			i-- // reprocess this byte
			emit(0xFFFD)
			continue
		}
		lower, upper = 0x80, 0xBF
		cp = cp<<6 | rune(c&0x3F)
		seen++
		if seen == needed {
			emit(cp)
			cp, needed, seen = 0, 0, 0
		}
	}
	if needed != 0 {
		emit(0xFFFD)
	}
	return b.String()
}

// Tokenize returns all tokens (including Whitespace and Comment
// pseudo-tokens) of Preprocess(s) and the list of parse errors. Error names:
// "unterminated-comment", "unterminated-string", "bad-string" (one per
// BadString token), "bad-url" (one per BadURL token), "unterminated-url",
// "invalid-escape" (a top-level backslash followed by a newline),
// "eof-in-escape" (a backslash immediately followed by EOF outside a string).
func Tokenize(s string) (toks []Token, errs []string) {
	t := newTokenizer(Preprocess(s))
	for t.pos < len(t.r) {
		before := t.pos
		tok := t.consumeToken()
		if t.pos <= before {
			panic("csssyn: tokenizer made no progress")
		}
		toks = append(toks, tok)
	}
	return toks, t.errs
}

type tokenizer struct {
	src  string
	r    []rune
	off  []int // off[i] is the byte offset of r[i]; off[len(r)] == len(src)
	pos  int
	errs []string
}

func newTokenizer(src string) *tokenizer {
	t := &tokenizer{src: src}
	for i, c := range src {
		t.r = append(t.r, c)
		t.off = append(t.off, i)
	}
	t.off = append(t.off, len(src))
	return t
}

func (t *tokenizer) peek(n int) rune {
	if i := t.pos + n; i < len(t.r) {
		return t.r[i]
	}
	return eof
}

func (t *tokenizer) err(name string) { t.errs = append(t.errs, name) }

// §4.2 definitions.

func isDigit(c rune) bool { return c >= '0' && c <= '9' }
func isHex(c rune) bool {
	return isDigit(c) || (c >= 'a' && c <= 'f') || (c >= 'A' && c <= 'F')
}
func isLetter(c rune) bool      { return (c >= 'a' && c <= 'z') || (c >= 'A' && c <= 'Z') }
func isNonASCII(c rune) bool    { return c >= 0x80 }
func isIdentStart(c rune) bool  { return isLetter(c) || isNonASCII(c) || c == '_' }
func isIdentCP(c rune) bool     { return isIdentStart(c) || isDigit(c) || c == '-' }
func isNewline(c rune) bool     { return c == '\n' } // CR and FF are gone after preprocessing
func isWhitespace(c rune) bool  { return c == '\n' || c == '\t' || c == ' ' }
func isSurrogate(c uint32) bool { return c >= 0xD800 && c <= 0xDFFF }
func isNonPrintable(c rune) bool {
	return (c >= 0 && c <= 8) || c == 0x0B || (c >= 0x0E && c <= 0x1F) || c == 0x7F
}

// §4.3.8 Check if two code points are a valid escape.
func validEscape(a, b rune) bool {
	if a != '\\' {
		return false
	}
	if isNewline(b) {
		return false
	}
	return true // note: includes b == EOF, as in the spec
}

// §4.3.9 Check if three code points would start an ident sequence.
func startsIdent(a, b, c rune) bool {
	switch {
	case a == '-':
		return isIdentStart(b) || b == '-' || validEscape(b, c)
	case a != eof && isIdentStart(a):
		return true
	case a == '\\':
		return validEscape(a, b)
	}
	return false
}

// §4.3.10 Check if three code points would start a number.
func startsNumber(a, b, c rune) bool {
	switch {
	case a == '+' || a == '-':
		if isDigit(b) {
			return true
		}
		return b == '.' && isDigit(c)
	case a == '.':
		return isDigit(b)
	case isDigit(a):
		return true
	}
	return false
}

func asciiLower(s string) string {
	b := []byte(s)
	for i, c := range b {
		if c >= 'A' && c <= 'Z' {
			b[i] = c + 0x20
		}
	}
	return string(b)
}

// EqualASCIIFold reports whether a and b are an ASCII case-insensitive match.
func EqualASCIIFold(a, b string) bool { return asciiLower(a) == asciiLower(b) }

func (t *tokenizer) mk(k Kind, start int) Token {
	return Token{Kind: k, Raw: t.src[t.off[start]:t.off[t.pos]], Start: t.off[start], End: t.off[t.pos]}
}

// §4.3.1 Consume a token (plus §4.3.2 consume comments, surfaced as tokens).
func (t *tokenizer) consumeToken() Token {
	start := t.pos

	// §4.3.2 Consume comments.
	if t.peek(0) == '/' && t.peek(1) == '*' {
		t.pos += 2
		bodyStart := t.pos
		for {
			if t.peek(0) == eof {
				t.err("unterminated-comment")
				tok := t.mk(Comment, start)
				tok.Value = t.src[t.off[bodyStart]:t.off[t.pos]]
				tok.Unterminated = true
				return tok
			}
			if t.peek(0) == '*' && t.peek(1) == '/' {
				body := t.src[t.off[bodyStart]:t.off[t.pos]]
				t.pos += 2
				tok := t.mk(Comment, start)
				tok.Value = body
				return tok
			}
			t.pos++
		}
	}

	c := t.peek(0)
	t.pos++ // consume the next input code point
	simple := func(k Kind) Token { return t.mk(k, start) }
	delim := func() Token {
		tok := t.mk(Delim, start)
		tok.Value = string(c)
		return tok
	}

	switch {
	case isWhitespace(c):
		for isWhitespace(t.peek(0)) {
			t.pos++
		}
		return simple(Whitespace)
	case c == '"' || c == '\'':
		return t.consumeString(c, start)
	case c == '#':
		if a := t.peek(0); (a != eof && isIdentCP(a)) || validEscape(a, t.peek(1)) {
			isID := startsIdent(t.peek(0), t.peek(1), t.peek(2))
			name := t.consumeIdentSeq()
			tok := t.mk(Hash, start)
			tok.Value = name
			tok.HashIsID = isID
			return tok
		}
		return delim()
	case c == '(':
		return simple(LParen)
	case c == ')':
		return simple(RParen)
	case c == '+':
		if startsNumber(c, t.peek(0), t.peek(1)) {
			t.pos = start
			return t.consumeNumeric(start)
		}
		return delim()
	case c == ',':
		return simple(Comma)
	case c == '-':
		if startsNumber(c, t.peek(0), t.peek(1)) {
			t.pos = start
			return t.consumeNumeric(start)
		}
		if t.peek(0) == '-' && t.peek(1) == '>' {
			t.pos += 2
			return simple(CDC)
		}
		if startsIdent(c, t.peek(0), t.peek(1)) {
			t.pos = start
			return t.consumeIdentLike(start)
		}
		return delim()
	case c == '.':
		if startsNumber(c, t.peek(0), t.peek(1)) {
			t.pos = start
			return t.consumeNumeric(start)
		}
		return delim()
	case c == ':':
		return simple(Colon)
	case c == ';':
		return simple(Semicolon)
	case c == '<':
		if t.peek(0) == '!' && t.peek(1) == '-' && t.peek(2) == '-' {
			t.pos += 3
			return simple(CDO)
		}
		return delim()
	case c == '@':
		if startsIdent(t.peek(0), t.peek(1), t.peek(2)) {
			name := t.consumeIdentSeq()
			tok := t.mk(AtKeyword, start)
			tok.Value = name
			return tok
		}
		return delim()
	case c == '[':
		return simple(LBracket)
	case c == '\\':
		if validEscape(c, t.peek(0)) {
			t.pos = start
			return t.consumeIdentLike(start)
		}
		t.err("invalid-escape")
		return delim()
	case c == ']':
		return simple(RBracket)
	case c == '{':
		return simple(LBrace)
	case c == '}':
		return simple(RBrace)
	case isDigit(c):
		t.pos = start
		return t.consumeNumeric(start)
	case isIdentStart(c):
		t.pos = start
		return t.consumeIdentLike(start)
	}
	return delim()
}

// §4.3.3 Consume a numeric token.
func (t *tokenizer) consumeNumeric(start int) Token {
	repr, isInt := t.consumeNumber()
	num, _ := strconv.ParseFloat(repr, 64)
	var tok Token
	if startsIdent(t.peek(0), t.peek(1), t.peek(2)) {
		unit := t.consumeIdentSeq()
		tok = t.mk(Dimension, start)
		tok.Unit = unit
	} else if t.peek(0) == '%' {
		t.pos++
		tok = t.mk(Percentage, start)
	} else {
		tok = t.mk(Number, start)
	}
	tok.Value = repr
	tok.NumIsInteger = isInt
	tok.Num = num
	return tok
}

// §4.3.4 Consume an ident-like token.
func (t *tokenizer) consumeIdentLike(start int) Token {
	name := t.consumeIdentSeq()
	if EqualASCIIFold(name, "url") && t.peek(0) == '(' {
		t.pos++
		for isWhitespace(t.peek(0)) && isWhitespace(t.peek(1)) {
			t.pos++
		}
		a, b := t.peek(0), t.peek(1)
		if a == '"' || a == '\'' || (isWhitespace(a) && (b == '"' || b == '\'')) {
			tok := t.mk(Function, start)
			tok.Value = name
			return tok
		}
		return t.consumeURL(start)
	}
	if t.peek(0) == '(' {
		t.pos++
		tok := t.mk(Function, start)
		tok.Value = name
		return tok
	}
	tok := t.mk(Ident, start)
	tok.Value = name
	return tok
}

// §4.3.5 Consume a string token. The opening quote has been consumed.
func (t *tokenizer) consumeString(ending rune, start int) Token {
	var val strings.Builder
	for {
		c := t.peek(0)
		switch {
		case c == ending:
			t.pos++
			tok := t.mk(String, start)
			tok.Value = val.String()
			return tok
		case c == eof:
			t.err("unterminated-string")
			tok := t.mk(String, start)
			tok.Value = val.String()
			tok.Unterminated = true
			return tok
		case isNewline(c):
			// parse error; reconsume (i.e. do not consume) the newline.
			t.err("bad-string")
			return t.mk(BadString, start)
		case c == '\\':
			t.pos++
			n := t.peek(0)
			switch {
			case n == eof:
				// do nothing
			case isNewline(n):
				t.pos++
			default:
				val.WriteRune(t.consumeEscaped())
			}
		default:
			t.pos++
			val.WriteRune(c)
		}
	}
}

// §4.3.6 Consume a url token. "url(" has been consumed.
func (t *tokenizer) consumeURL(start int) Token {
	var val strings.Builder
	for isWhitespace(t.peek(0)) {
		t.pos++
	}
	good := func(unterminated bool) Token {
		tok := t.mk(URL, start)
		tok.Value = val.String()
		tok.Unterminated = unterminated
		return tok
	}
	bad := func() Token {
		t.err("bad-url")
		t.consumeBadURLRemnants()
		return t.mk(BadURL, start)
	}
	for {
		c := t.peek(0)
		if c != eof {
			t.pos++
		}
		switch {
		case c == ')':
			return good(false)
		case c == eof:
			t.err("unterminated-url")
			return good(true)
		case isWhitespace(c):
			for isWhitespace(t.peek(0)) {
				t.pos++
			}
			switch t.peek(0) {
			case ')':
				t.pos++
				return good(false)
			case eof:
				t.err("unterminated-url")
				return good(true)
			}
			return bad()
		case c == '"' || c == '\'' || c == '(' || isNonPrintable(c):
			return bad()
		case c == '\\':
			if validEscape(c, t.peek(0)) {
				val.WriteRune(t.consumeEscaped())
			} else {
				return bad()
			}
		default:
			val.WriteRune(c)
		}
	}
}

// §4.3.14 Consume the remnants of a bad url.
func (t *tokenizer) consumeBadURLRemnants() {
	for {
		c := t.peek(0)
		if c == eof {
			return
		}
		t.pos++
		if c == ')' {
			return
		}
		if validEscape(c, t.peek(0)) {
			t.consumeEscapedQuiet()
		}
	}
}

// §4.3.7 Consume an escaped code point. The backslash has been consumed and
// the next code point is known not to be a newline.
func (t *tokenizer) consumeEscaped() rune {
	c := t.peek(0)
	if c == eof {
		t.err("eof-in-escape")
		return 0xFFFD
	}
	t.pos++
	if isHex(c) {
		v := hexVal(c)
		for n := 1; n < 6 && isHex(t.peek(0)); n++ {
			v = v*16 + hexVal(t.peek(0))
			t.pos++
		}
		if isWhitespace(t.peek(0)) {
			t.pos++
		}
		if v == 0 || isSurrogate(v) || v > 0x10FFFF {
			return 0xFFFD
		}
		return rune(v)
	}
	return c
}

// consumeEscapedQuiet is consumeEscaped without error reporting; the spec
// says the bad-url remnant consumer exists only to skip input.
func (t *tokenizer) consumeEscapedQuiet() {
	n := len(t.errs)
	t.consumeEscaped()
	t.errs = t.errs[:n]
}

func hexVal(c rune) uint32 {
	switch {
	case c >= '0' && c <= '9':
		return uint32(c - '0')
	case c >= 'a' && c <= 'f':
		return uint32(c-'a') + 10
	default:
		return uint32(c-'A') + 10
	}
}

// §4.3.11 Consume an ident sequence.
func (t *tokenizer) consumeIdentSeq() string {
	var b strings.Builder
	for {
		c := t.peek(0)
		switch {
		case c != eof && isIdentCP(c):
			t.pos++
			b.WriteRune(c)
		case validEscape(c, t.peek(1)):
			t.pos++
			b.WriteRune(t.consumeEscaped())
		default:
			return b.String()
		}
	}
}

// §4.3.12 Consume a number. Returns the representation and whether the type
// is "integer".
func (t *tokenizer) consumeNumber() (repr string, isInt bool) {
	start := t.pos
	isInt = true
	if c := t.peek(0); c == '+' || c == '-' {
		t.pos++
	}
	for isDigit(t.peek(0)) {
		t.pos++
	}
	if t.peek(0) == '.' && isDigit(t.peek(1)) {
		t.pos += 2
		isInt = false
		for isDigit(t.peek(0)) {
			t.pos++
		}
	}
	if c := t.peek(0); c == 'e' || c == 'E' {
		n := t.peek(1)
		exp := false
		if isDigit(n) {
			t.pos += 2
			exp = true
		} else if (n == '+' || n == '-') && isDigit(t.peek(2)) {
			t.pos += 3
			exp = true
		}
		if exp {
			isInt = false
			for isDigit(t.peek(0)) {
				t.pos++
			}
		}
	}
	return t.src[t.off[start]:t.off[t.pos]], isInt
}
