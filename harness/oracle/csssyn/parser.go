package csssyn

import "strings"

// ComponentValue is exactly one of: a preserved token, a simple block, a
// function.
type ComponentValue struct {
	Tok   *Token         // preserved token, or nil
	Block *SimpleBlock   // {} [] () block, or nil
	Func  *FunctionBlock // function, or nil
}

// SimpleBlock is a {}-, []- or ()-block.
type SimpleBlock struct {
	Open   byte // '{' '[' '('
	Values []ComponentValue
	Closed bool // false if ended by EOF

	OpenTok  *Token // the opening token (extra)
	CloseTok *Token // the closing token, nil if !Closed (extra)
}

// FunctionBlock is a function: a Function token, its contents, and ")".
type FunctionBlock struct {
	Name   string
	Values []ComponentValue
	Closed bool

	Tok      *Token // the Function token (extra)
	CloseTok *Token // the ")" token, nil if !Closed (extra)
}

type Declaration struct {
	Name      string
	Value     []ComponentValue
	Important bool
}

type AtRule struct {
	Name    string
	Prelude []ComponentValue
	Block   *SimpleBlock // nil if the at-rule ended with ';' or EOF
}

type QualifiedRule struct {
	Prelude []ComponentValue
	Block   SimpleBlock
}

// Rule: exactly one of At / Qualified is set.
type Rule struct {
	At        *AtRule
	Qualified *QualifiedRule
}

// DeclItem is an item of a declaration list: exactly one of Decl / At is set.
type DeclItem struct {
	Decl *Declaration
	At   *AtRule
}

type parser struct {
	toks []Token // comment-free
	pos  int
	errs []string
}

// newParser tokenizes s and drops the Comment pseudo-tokens (the tokenizer's
// "consume comments" step), remembering their text on the following token.
func newParser(s string) *parser {
	all, errs := Tokenize(s)
	p := &parser{errs: errs}
	p.toks = make([]Token, 0, len(all))
	var lead string
	for _, t := range all {
		if t.Kind == Comment {
			lead += t.Raw
			continue
		}
		t.LeadingComments = lead
		lead = ""
		p.toks = append(p.toks, t)
	}
	return p
}

func (p *parser) err(name string) { p.errs = append(p.errs, name) }

// peek returns the next input token, or nil for EOF.
func (p *parser) peek() *Token {
	if p.pos < len(p.toks) {
		return &p.toks[p.pos]
	}
	return nil
}

// next consumes the next input token; nil for EOF.
func (p *parser) next() *Token {
	t := p.peek()
	if t != nil {
		p.pos++
	}
	return t
}

func (p *parser) reconsume() { p.pos-- }

// ParseComponentValues implements "parse a list of component values".
func ParseComponentValues(s string) (vs []ComponentValue, errs []string) {
	p := newParser(s)
	for p.peek() != nil {
		vs = append(vs, p.consumeComponentValue())
	}
	return vs, p.errs
}

// ParseDeclarationList implements "parse a list of declarations" (Level 3).
// Parse errors: tokenizer errors plus "invalid-declaration" (ident not
// followed by a colon), "unexpected-token:<kind>" (junk where a declaration
// should start), "eof-in-at-rule", "eof-in-block", "eof-in-function".
func ParseDeclarationList(s string) (items []DeclItem, errs []string) {
	p := newParser(s)
	items = p.consumeDeclarationList()
	return items, p.errs
}

// ParseRuleList implements "parse a stylesheet" (top-level flag set). Parse
// errors: tokenizer errors plus "eof-in-qualified-rule", "eof-in-at-rule",
// "eof-in-block", "eof-in-function".
func ParseRuleList(s string) (rules []Rule, errs []string) {
	p := newParser(s)
	rules = p.consumeRuleList(true)
	return rules, p.errs
}

// ParseRuleListNotTopLevel implements "parse a list of rules" (top-level
// flag unset: CDO/CDC start qualified rules).
func ParseRuleListNotTopLevel(s string) (rules []Rule, errs []string) {
	p := newParser(s)
	rules = p.consumeRuleList(false)
	return rules, p.errs
}

// §5.4.1 Consume a list of rules.
func (p *parser) consumeRuleList(topLevel bool) []Rule {
	var rules []Rule
	for {
		t := p.next()
		switch {
		case t == nil:
			return rules
		case t.Kind == Whitespace:
			// do nothing
		case t.Kind == CDO || t.Kind == CDC:
			if topLevel {
				continue
			}
			p.reconsume()
			if q := p.consumeQualifiedRule(); q != nil {
				rules = append(rules, Rule{Qualified: q})
			}
		case t.Kind == AtKeyword:
			p.reconsume()
			rules = append(rules, Rule{At: p.consumeAtRule()})
		default:
			p.reconsume()
			if q := p.consumeQualifiedRule(); q != nil {
				rules = append(rules, Rule{Qualified: q})
			}
		}
	}
}

// §5.4.2 Consume an at-rule. The next input token is an at-keyword.
func (p *parser) consumeAtRule() *AtRule {
	r := &AtRule{Name: p.next().Value}
	for {
		t := p.next()
		switch {
		case t == nil:
			p.err("eof-in-at-rule")
			return r
		case t.Kind == Semicolon:
			return r
		case t.Kind == LBrace:
			r.Block = p.consumeSimpleBlock(t)
			return r
		default:
			p.reconsume()
			r.Prelude = append(r.Prelude, p.consumeComponentValue())
		}
	}
}

// §5.4.3 Consume a qualified rule. Returns nil for "nothing".
func (p *parser) consumeQualifiedRule() *QualifiedRule {
	r := &QualifiedRule{}
	for {
		t := p.next()
		switch {
		case t == nil:
			p.err("eof-in-qualified-rule")
			return nil
		case t.Kind == LBrace:
			r.Block = *p.consumeSimpleBlock(t)
			return r
		default:
			p.reconsume()
			r.Prelude = append(r.Prelude, p.consumeComponentValue())
		}
	}
}

// §5.4.4 Consume a list of declarations (Level 3 CR algorithm).
func (p *parser) consumeDeclarationList() []DeclItem {
	var items []DeclItem
	notEnd := func() bool {
		t := p.peek()
		return t != nil && t.Kind != Semicolon
	}
	for {
		t := p.next()
		switch {
		case t == nil:
			return items
		case t.Kind == Whitespace || t.Kind == Semicolon:
			// do nothing
		case t.Kind == AtKeyword:
			p.reconsume()
			items = append(items, DeclItem{At: p.consumeAtRule()})
		case t.Kind == Ident:
			tmp := []ComponentValue{{Tok: t}}
			for notEnd() {
				tmp = append(tmp, p.consumeComponentValue())
			}
			if d := p.consumeDeclaration(tmp); d != nil {
				items = append(items, DeclItem{Decl: d})
			}
		default:
			p.err("unexpected-token:" + t.Kind.String())
			p.reconsume()
			for notEnd() {
				p.consumeComponentValue() // thrown away
			}
		}
	}
}

func cvIs(v ComponentValue, k Kind) bool { return v.Tok != nil && v.Tok.Kind == k }

// §5.4.5 Consume a declaration, from a list of component values whose first
// item is an ident token. Returns nil for "nothing".
func (p *parser) consumeDeclaration(in []ComponentValue) *Declaration {
	i := 0
	d := &Declaration{Name: in[i].Tok.Value}
	i++
	for i < len(in) && cvIs(in[i], Whitespace) {
		i++
	}
	if i >= len(in) || !cvIs(in[i], Colon) {
		p.err("invalid-declaration")
		return nil
	}
	i++
	for i < len(in) && cvIs(in[i], Whitespace) {
		i++
	}
	d.Value = append([]ComponentValue(nil), in[i:]...)

	// "If the last two non-<whitespace-token>s in the declaration's value are
	// a <delim-token> with the value "!" followed by an <ident-token> with a
	// value that is an ASCII case-insensitive match for "important", remove
	// them from the declaration's value and set the important flag."
	last, prev := -1, -1
	for j := len(d.Value) - 1; j >= 0; j-- {
		if cvIs(d.Value[j], Whitespace) {
			continue
		}
		if last < 0 {
			last = j
		} else {
			prev = j
			break
		}
	}
	if prev >= 0 &&
		cvIs(d.Value[prev], Delim) && d.Value[prev].Tok.Value == "!" &&
		cvIs(d.Value[last], Ident) && EqualASCIIFold(d.Value[last].Tok.Value, "important") {
		v := make([]ComponentValue, 0, len(d.Value)-2)
		for j, cv := range d.Value {
			if j != prev && j != last {
				v = append(v, cv)
			}
		}
		d.Value = v
		d.Important = true
	}
	for len(d.Value) > 0 && cvIs(d.Value[len(d.Value)-1], Whitespace) {
		d.Value = d.Value[:len(d.Value)-1]
	}
	return d
}

// §5.4.7 Consume a component value.
func (p *parser) consumeComponentValue() ComponentValue {
	t := p.next()
	switch t.Kind {
	case LBrace, LBracket, LParen:
		return ComponentValue{Block: p.consumeSimpleBlock(t)}
	case Function:
		return ComponentValue{Func: p.consumeFunction(t)}
	}
	return ComponentValue{Tok: t}
}

// §5.4.8 Consume a simple block. open is the already-consumed opening token.
func (p *parser) consumeSimpleBlock(open *Token) *SimpleBlock {
	b := &SimpleBlock{OpenTok: open}
	var ending Kind
	switch open.Kind {
	case LBrace:
		b.Open, ending = '{', RBrace
	case LBracket:
		b.Open, ending = '[', RBracket
	default:
		b.Open, ending = '(', RParen
	}
	for {
		t := p.next()
		switch {
		case t == nil:
			p.err("eof-in-block")
			return b
		case t.Kind == ending:
			b.Closed = true
			b.CloseTok = t
			return b
		default:
			p.reconsume()
			b.Values = append(b.Values, p.consumeComponentValue())
		}
	}
}

// §5.4.9 Consume a function. fn is the already-consumed function token.
func (p *parser) consumeFunction(fn *Token) *FunctionBlock {
	f := &FunctionBlock{Name: fn.Value, Tok: fn}
	for {
		t := p.next()
		switch {
		case t == nil:
			p.err("eof-in-function")
			return f
		case t.Kind == RParen:
			f.Closed = true
			f.CloseTok = t
			return f
		default:
			p.reconsume()
			f.Values = append(f.Values, p.consumeComponentValue())
		}
	}
}

// Flatten returns all tokens inside component values, depth first, including
// the tokens that open and close blocks and functions (a block or function
// ended by EOF has no closing token).
func Flatten(vs []ComponentValue) []Token {
	var out []Token
	var walk func(vs []ComponentValue)
	walk = func(vs []ComponentValue) {
		for _, v := range vs {
			switch {
			case v.Tok != nil:
				out = append(out, *v.Tok)
			case v.Block != nil:
				out = append(out, blockOpenTok(v.Block))
				walk(v.Block.Values)
				if v.Block.Closed {
					out = append(out, blockCloseTok(v.Block))
				}
			case v.Func != nil:
				out = append(out, funcTok(v.Func))
				walk(v.Func.Values)
				if v.Func.Closed {
					out = append(out, funcCloseTok(v.Func))
				}
			}
		}
	}
	walk(vs)
	return out
}

// The helpers below fall back to synthetic tokens so that hand-built trees
// (without the extra *Tok fields) still serialize.

func blockOpenTok(b *SimpleBlock) Token {
	if b.OpenTok != nil {
		return *b.OpenTok
	}
	switch b.Open {
	case '{':
		return Token{Kind: LBrace, Raw: "{"}
	case '[':
		return Token{Kind: LBracket, Raw: "["}
	}
	return Token{Kind: LParen, Raw: "("}
}

func blockCloseTok(b *SimpleBlock) Token {
	if b.CloseTok != nil {
		return *b.CloseTok
	}
	switch b.Open {
	case '{':
		return Token{Kind: RBrace, Raw: "}"}
	case '[':
		return Token{Kind: RBracket, Raw: "]"}
	}
	return Token{Kind: RParen, Raw: ")"}
}

func funcTok(f *FunctionBlock) Token {
	if f.Tok != nil {
		return *f.Tok
	}
	return Token{Kind: Function, Value: f.Name, Raw: f.Name + "("}
}

func funcCloseTok(f *FunctionBlock) Token {
	if f.CloseTok != nil {
		return *f.CloseTok
	}
	return Token{Kind: RParen, Raw: ")"}
}

// Serialize re-serialises component values to source text using each token's
// Raw (blocks/functions re-emit their brackets; unclosed ones do not emit the
// closer). Comments that were dropped by the parser are re-emitted verbatim
// in front of the token they preceded, so adjacent tokens never fuse.
func Serialize(vs []ComponentValue) string {
	var b strings.Builder
	for _, t := range Flatten(vs) {
		b.WriteString(t.LeadingComments)
		b.WriteString(t.Raw)
	}
	return b.String()
}

// SerializeNoComments is Serialize without the re-emitted comments: the plain
// concatenation of Raw.
func SerializeNoComments(vs []ComponentValue) string {
	var b strings.Builder
	for _, t := range Flatten(vs) {
		b.WriteString(t.Raw)
	}
	return b.String()
}
