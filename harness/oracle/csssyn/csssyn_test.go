package csssyn

import (
	"math/rand"
	"strconv"
	"strings"
	"testing"
)

// ---------------------------------------------------------------------------
// Dump helpers (compact, human-checkable notations).

func q(v string) string {
	if v == "" {
		return `""`
	}
	for _, c := range v {
		if c <= ' ' || c >= 0x7f || c == '"' {
			return strconv.QuoteToASCII(v)
		}
	}
	return v
}

func dumpTok(t Token) string {
	bang := ""
	if t.Unterminated {
		bang = "!"
	}
	switch t.Kind {
	case Ident:
		return "ident:" + q(t.Value)
	case Function:
		return "fn:" + q(t.Value)
	case AtKeyword:
		return "at:" + q(t.Value)
	case Hash:
		if t.HashIsID {
			return "hash:" + q(t.Value) + "/id"
		}
		return "hash:" + q(t.Value) + "/u"
	case String:
		return "str" + bang + ":" + q(t.Value)
	case BadString:
		return "badstr"
	case URL:
		return "url" + bang + ":" + q(t.Value)
	case BadURL:
		return "badurl"
	case Delim:
		return "delim:" + q(t.Value)
	case Number:
		return "num:" + t.Value
	case Percentage:
		return "pct:" + t.Value
	case Dimension:
		return "dim:" + t.Value + "|" + q(t.Unit)
	case Whitespace:
		return "ws"
	case Colon:
		return ":"
	case Semicolon:
		return ";"
	case Comma:
		return ","
	case Comment:
		return "cmt" + bang + ":" + q(t.Value)
	}
	return t.Kind.String() // CDO CDC [ ] ( ) { }
}

func dumpToks(ts []Token) string {
	var out []string
	for _, t := range ts {
		out = append(out, dumpTok(t))
	}
	return strings.Join(out, " ")
}

func dumpCVs(vs []ComponentValue) string {
	var out []string
	for _, v := range vs {
		switch {
		case v.Tok != nil:
			out = append(out, dumpTok(*v.Tok))
		case v.Block != nil:
			s := "B" + string(v.Block.Open)
			if in := dumpCVs(v.Block.Values); in != "" {
				s += " " + in
			}
			if v.Block.Closed {
				s += " " + string(map[byte]byte{'{': '}', '[': ']', '(': ')'}[v.Block.Open])
			} else {
				s += " EOF"
			}
			out = append(out, s)
		case v.Func != nil:
			s := "F:" + q(v.Func.Name) + "("
			if in := dumpCVs(v.Func.Values); in != "" {
				s += " " + in
			}
			if v.Func.Closed {
				s += " )"
			} else {
				s += " EOF"
			}
			out = append(out, s)
		default:
			out = append(out, "<empty-cv>")
		}
	}
	return strings.Join(out, " ")
}

func dumpBlock(b *SimpleBlock) string {
	s := string(b.Open) + SerializeNoComments(b.Values)
	if b.Closed {
		s += string(map[byte]byte{'{': '}', '[': ']', '(': ')'}[b.Open])
	} else {
		s += "<EOF>"
	}
	return s
}

func dumpAt(a *AtRule) string {
	s := "at(" + q(a.Name) + ")[" + SerializeNoComments(a.Prelude) + "]"
	if a.Block != nil {
		return s + dumpBlock(a.Block)
	}
	return s + ";"
}

func dumpDecls(items []DeclItem) string {
	var out []string
	for _, it := range items {
		switch {
		case it.Decl != nil && it.At == nil:
			s := "decl"
			if it.Decl.Important {
				s += "!"
			}
			out = append(out, s+"("+q(it.Decl.Name)+")["+SerializeNoComments(it.Decl.Value)+"]")
		case it.At != nil && it.Decl == nil:
			out = append(out, dumpAt(it.At))
		default:
			out = append(out, "<bad-item>")
		}
	}
	return strings.Join(out, " | ")
}

func dumpRules(rs []Rule) string {
	var out []string
	for _, r := range rs {
		switch {
		case r.Qualified != nil && r.At == nil:
			out = append(out, "q["+SerializeNoComments(r.Qualified.Prelude)+"]"+dumpBlock(&r.Qualified.Block))
		case r.At != nil && r.Qualified == nil:
			out = append(out, dumpAt(r.At))
		default:
			out = append(out, "<bad-rule>")
		}
	}
	return strings.Join(out, " | ")
}

// ---------------------------------------------------------------------------
// Preprocessing.

func TestPreprocess(t *testing.T) {
	for _, c := range []struct{ in, want string }{
		{"", ""},
		{"abc", "abc"},
		{"a\r\nb", "a\nb"},
		{"a\rb", "a\nb"},
		{"a\fb", "a\nb"},
		{"a\r\r\nb", "a\n\nb"},
		{"a\n\rb", "a\n\nb"},
		{"a\r\n\nb", "a\n\nb"},
		{"a\r\fb", "a\n\nb"},
		{"a\r", "a\n"},
		{"a\x00b", "a\uFFFDb"},
		{"\xff", "\uFFFD"},
		{"\x80", "\uFFFD"},
		{"\xc0\xaf", "\uFFFD\uFFFD"},           // overlong: C0 is never valid
		{"\xe2\x82", "\uFFFD"},                 // truncated 3-byte sequence: one U+FFFD
		{"\xe2\x82x", "\uFFFDx"},               // ... and the following byte is reprocessed
		{"\xed\xa0\x80", "\uFFFD\uFFFD\uFFFD"}, // UTF-8 encoded surrogate
		{"\xf4\x90\x80\x80", "\uFFFD\uFFFD\uFFFD\uFFFD"}, // > U+10FFFF
		{"\xf0\x9f\x98\x80", "\U0001F600"},
		{"é\u2028\uFFFD", "é\u2028\uFFFD"},
		{"\xe2\r\n", "\uFFFD\n"},
	} {
		if got := Preprocess(c.in); got != c.want {
			t.Errorf("Preprocess(%q) = %q, want %q", c.in, got, c.want)
		}
	}
}

// ---------------------------------------------------------------------------
// Tokenizer vectors.

type tokVec struct{ in, want, errs string }

var tokVecs = []tokVec{
	// --- ident-like
	{"foo", "ident:foo", ""},
	{"foo(", "fn:foo", ""},
	{"_a", "ident:_a", ""},
	{"a1-_", "ident:a1-_", ""},
	{"é", `ident:"\u00e9"`, ""},
	{"a\u00a0b", `ident:"a\u00a0b"`, ""}, // NBSP is non-ASCII, hence an ident code point
	{"a\x00b", `ident:"a\ufffdb"`, ""},
	{"\xff", `ident:"\ufffd"`, ""},
	{"-", "delim:-", ""},
	{"--", "ident:--", ""},
	{"--x", "ident:--x", ""},
	{"--1", "ident:--1", ""},
	{"-x", "ident:-x", ""},
	{"-a-b", "ident:-a-b", ""},
	{"-\\78", "ident:-x", ""},
	{"- x", "delim:- ws ident:x", ""},
	{"-->", "CDC", ""},
	{"--->", "ident:--- delim:>", ""},
	{"a-->", "ident:a-- delim:>", ""},
	{"<!--", "CDO", ""},
	{"<!-", "delim:< delim:! delim:-", ""},
	{"<!--->", "CDO delim:- delim:>", ""},
	{"<", "delim:<", ""},
	{"rgb(1,2)", "fn:rgb num:1 , num:2 )", ""},
	{"url (x)", "ident:url ws ( ident:x )", ""},
	{"urlx(y)", "fn:urlx ident:y )", ""},
	{"U+26", "ident:U num:+26", ""}, // no unicode-range token in the CR
	{"a:b", "ident:a : ident:b", ""},
	{"!important", "delim:! ident:important", ""},

	// --- escapes in idents
	{"\\41", "ident:A", ""},
	{"\\41 b", "ident:Ab", ""},
	{"\\41  b", "ident:A ws ident:b", ""},
	{"\\41\nb", "ident:Ab", ""},
	{"\\41\r\nb", "ident:Ab", ""}, // CRLF is one newline after preprocessing
	{"\\41\tb", "ident:Ab", ""},
	{"\\000041b", "ident:Ab", ""},
	{"\\0000411", "ident:A1", ""},
	{"\\0", `ident:"\ufffd"`, ""},
	{"\\000000", `ident:"\ufffd"`, ""},
	{"\\d800", `ident:"\ufffd"`, ""},
	{"\\DFFF", `ident:"\ufffd"`, ""},
	{"\\110000", `ident:"\ufffd"`, ""},
	{"\\10ffff", `ident:"\U0010ffff"`, ""},
	{"\\g", "ident:g", ""},
	{"\\(", "ident:(", ""},
	{"a\\ b", `ident:"a b"`, ""},
	{"\\\\", `ident:\`, ""},
	{"\\", `ident:"\ufffd"`, "eof-in-escape"},
	{"a\\", `ident:"a\ufffd"`, "eof-in-escape"},
	{"\\\n", `delim:\ ws`, "invalid-escape"},
	{"a\\\nb", `ident:a delim:\ ws ident:b`, "invalid-escape"},
	{"a\\\rb", `ident:a delim:\ ws ident:b`, "invalid-escape"},
	{"a\\\fb", `ident:a delim:\ ws ident:b`, "invalid-escape"},
	{"\\-", "ident:-", ""},
	{"\\31 a", "ident:1a", ""},

	// --- at-keyword
	{"@media", "at:media", ""},
	{"@", "delim:@", ""},
	{"@1", "delim:@ num:1", ""},
	{"@-x", "at:-x", ""},
	{"@--", "at:--", ""},
	{"@-", "delim:@ delim:-", ""},
	{"@-1", "delim:@ num:-1", ""},
	{"@\\41", "at:A", ""},
	{"@a\\\n", `at:a delim:\ ws`, "invalid-escape"},
	{"@ a", "delim:@ ws ident:a", ""},

	// --- hash
	{"#abc", "hash:abc/id", ""},
	{"#123", "hash:123/u", ""},
	{"#", "delim:#", ""},
	{"# a", "delim:# ws ident:a", ""},
	{"#-", "hash:-/u", ""},
	{"#--", "hash:--/id", ""},
	{"#-a", "hash:-a/id", ""},
	{"#-1", "hash:-1/u", ""},
	{"#\\31", "hash:1/id", ""},
	{"#_", "hash:_/id", ""},
	{"#é", `hash:"\u00e9"/id`, ""},
	{"#a\\\n", `hash:a/id delim:\ ws`, "invalid-escape"},
	{"#\\\n", `delim:# delim:\ ws`, "invalid-escape"},
	{"#1a", "hash:1a/u", ""},

	// --- strings
	{`"hi"`, "str:hi", ""},
	{`'hi'`, "str:hi", ""},
	{`""`, `str:""`, ""},
	{`'a"b'`, `str:"a\"b"`, ""},
	{`"a'b"`, "str:a'b", ""},
	{`"a\"b"`, `str:"a\"b"`, ""},
	{`"a\\"`, `str:a\`, ""},
	{`"a\62 c"`, "str:abc", ""},
	{`"a\62  c"`, `str:"ab c"`, ""},
	{`"\0"`, `str:"\ufffd"`, ""},
	{`"\g"`, "str:g", ""},
	{"\"a\\\nb\"", "str:ab", ""}, // line continuation
	{"\"a\\\r\nb\"", "str:ab", ""},
	{"\"a\\\fb\"", "str:ab", ""},
	{"\"a\nb", "badstr ws ident:b", "bad-string"},
	{"\"a\rb", "badstr ws ident:b", "bad-string"},
	{"'a\n'", "badstr ws str!:\"\"", "bad-string,unterminated-string"},
	{"\"a\nb\"c\n", "badstr ws ident:b badstr ws", "bad-string,bad-string"},
	{`"a`, "str!:a", "unterminated-string"},
	{`"`, `str!:""`, "unterminated-string"},
	{`"a\`, "str!:a", "unterminated-string"}, // backslash-EOF in a string adds nothing
	{`'a\'`, "str!:a'", "unterminated-string"},
	{`"/*"`, "str:/*", ""},
	{`"a{b}"`, "str:a{b}", ""},

	// --- url
	{"url(foo)", "url:foo", ""},
	{"url()", `url:""`, ""},
	{"url(  x  )", "url:x", ""},
	{"url(\n\tx\n)", "url:x", ""},
	{"URL(x)", "url:x", ""},
	{"uRl(x)", "url:x", ""},
	{"u\\72l(x)", "url:x", ""},
	{"u\\72 l(x)", "url:x", ""},
	{"\\75\\52\\4c(x)", "url:x", ""},
	{"\\75 Rl(\"x\")", "fn:uRl str:x )", ""},
	{`url("x")`, "fn:url str:x )", ""},
	{`url('x')`, "fn:url str:x )", ""},
	{`url( "x")`, "fn:url ws str:x )", ""},
	{`url(   "x")`, "fn:url ws str:x )", ""},
	{`url( 'x' )`, "fn:url ws str:x ws )", ""},
	{"url(\n'x')", "fn:url ws str:x )", ""},
	{`URL("x")`, "fn:URL str:x )", ""},
	{"url(x", "url!:x", "unterminated-url"},
	{"url(", `url!:""`, "unterminated-url"},
	{"url(  ", `url!:""`, "unterminated-url"},
	{"url(x  ", "url!:x", "unterminated-url"},
	{`url(a"b)`, "badurl", "bad-url"},
	{`url(a'b)`, "badurl", "bad-url"},
	{"url(a b)", "badurl", "bad-url"},
	{"url(a\nb)", "badurl", "bad-url"},
	{"url(a(b)", "badurl", "bad-url"},
	{"url(a(b)c)", "badurl ident:c )", "bad-url"},
	{"url(a\x01b)", "badurl", "bad-url"},
	{"url(a\x7fb)", "badurl", "bad-url"},
	{"url(a\x0bb)", "badurl", "bad-url"},
	{"url(a\x1fb)", "badurl", "bad-url"},
	{"url(a\x00b)", `url:"a\ufffdb"`, ""}, // NUL was preprocessed into U+FFFD
	{`url(a\)b)`, "url:a)b", ""},
	{`url(a\ b)`, `url:"a b"`, ""},
	{`url(\"x)`, `url:"\"x"`, ""},
	{`url(a\62 c)`, "url:abc", ""},
	{`url(a"b\)c)d`, "badurl ident:d", "bad-url"},
	{`url(a b\)c)d`, "badurl ident:d", "bad-url"},
	{"url(a\\\nb)c", "badurl ident:c", "bad-url"},
	{"url(\\\n)c", "badurl ident:c", "bad-url"},
	{`url(a"b`, "badurl", "bad-url"},
	{`url(a"b\`, "badurl", "bad-url"},
	{`url(a\`, `url!:"a\ufffd"`, "eof-in-escape,unterminated-url"},
	{"url(x) y", "url:x ws ident:y", ""},
	{"url({};a:b)", "url:{};a:b", ""},
	{"url(/*x*/)", "url:/*x*/", ""},
	{"url(<!--)", "url:<!--", ""},
	{`url(x"){}y)z`, "badurl { } ident:y ) ident:z", "bad-url"},
	{`url( x"){}y)z`, "badurl { } ident:y ) ident:z", "bad-url"},
	{`url(x y"){}z)w`, "badurl { } ident:z ) ident:w", "bad-url"},
	{`url(x{}";y:z)w`, "badurl ident:w", "bad-url"},
	{"url(a,b)", "url:a,b", ""},
	{"url(#a)", "url:#a", ""},
	{"url(@a)", "url:@a", ""},
	{"-url(x y)", "fn:-url ident:x ws ident:y )", ""},

	// --- numbers
	{"12", "num:12", ""},
	{"+12", "num:+12", ""},
	{"-12", "num:-12", ""},
	{"1.5", "num:1.5", ""},
	{".5", "num:.5", ""},
	{"+.5", "num:+.5", ""},
	{"-.5", "num:-.5", ""},
	{"1.", "num:1 delim:.", ""},
	{"1.5.5", "num:1.5 num:.5", ""},
	{"1e3", "num:1e3", ""},
	{"1E3", "num:1E3", ""},
	{"1e+3", "num:1e+3", ""},
	{"1e-3", "num:1e-3", ""},
	{"1.5e-3", "num:1.5e-3", ""},
	{"1e1.5", "num:1e1 num:.5", ""},
	{"1e", "dim:1|e", ""},
	{"1e+", "dim:1|e delim:+", ""},
	{"1e-", "dim:1|e-", ""},
	{"1e-x", "dim:1|e-x", ""},
	{"1em", "dim:1|em", ""},
	{"1.5em", "dim:1.5|em", ""},
	{"1e3em", "dim:1e3|em", ""},
	{"1px", "dim:1|px", ""},
	{"0x10", "dim:0|x10", ""},
	{"1-", "num:1 delim:-", ""},
	{"1-x", "dim:1|-x", ""},
	{"1--x", "dim:1|--x", ""},
	{"1--", "dim:1|--", ""},
	{"1-->", "dim:1|-- delim:>", ""},
	{"1\\65", "dim:1|e", ""},
	{"1\\\n", `num:1 delim:\ ws`, "invalid-escape"},
	{"1_", "dim:1|_", ""},
	{"1é", `dim:1|"\u00e9"`, ""},
	{"-1x", "dim:-1|x", ""},
	{"50%", "pct:50", ""},
	{"-5.5%", "pct:-5.5", ""},
	{"50%%", "pct:50 delim:%", ""},
	{"50 %", "num:50 ws delim:%", ""},
	{"%", "delim:%", ""},
	{"+", "delim:+", ""},
	{"+a", "delim:+ ident:a", ""},
	{"+.", "delim:+ delim:.", ""},
	{"+-1", "delim:+ num:-1", ""},
	{".", "delim:.", ""},
	{".a", "delim:. ident:a", ""},
	{"..5", "delim:. num:.5", ""},
	{"1 2", "num:1 ws num:2", ""},
	{"1+2", "num:1 num:+2", ""},
	{"1/2", "num:1 delim:/ num:2", ""},

	// --- comments
	{"/* x */", `cmt:" x "`, ""},
	{"/**/", `cmt:""`, ""},
	{"/***/", "cmt:*", ""},
	{"/*", `cmt!:""`, "unterminated-comment"},
	{"/*/", "cmt!:/", "unterminated-comment"},
	{"/* x", `cmt!:" x"`, "unterminated-comment"},
	{"/* x *", `cmt!:" x *"`, "unterminated-comment"},
	{"a/**/b", `ident:a cmt:"" ident:b`, ""},
	{"a /* x */ b", `ident:a ws cmt:" x " ws ident:b`, ""},
	{"/*a*//*b*/", "cmt:a cmt:b", ""},
	{"/ *", "delim:/ ws delim:*", ""},
	{"/**/*/", `cmt:"" delim:* delim:/`, ""},
	{"/*\"*/\"", `cmt:"\"" str!:""`, "unterminated-string"},
	{"/* \n */", `cmt:" \n "`, ""},
	{"1/**/px", `num:1 cmt:"" ident:px`, ""},
	{"url/**/(x)", `ident:url cmt:"" ( ident:x )`, ""},
	{"@/**/a", `delim:@ cmt:"" ident:a`, ""},
	{"/", "delim:/", ""},
	{"*/", "delim:* delim:/", ""},

	// --- whitespace & punctuation & delims
	{" \t\n", "ws", ""},
	{"a\r\nb\rc\fd", "ident:a ws ident:b ws ident:c ws ident:d", ""},
	{"a\vb", `ident:a delim:"\v" ident:b`, ""}, // VT is not CSS whitespace
	{":;,[](){}", ": ; , [ ] ( ) { }", ""},
	{"~|^$*=>!&?`", "delim:~ delim:| delim:^ delim:$ delim:* delim:= delim:> delim:! delim:& delim:? delim:`", ""},
	{"\x01\x7f", `delim:"\x01" delim:"\x7f"`, ""},
	{"a{b:c}", "ident:a { ident:b : ident:c }", ""},
	{"a > b", "ident:a ws delim:> ws ident:b", ""},
	{"a[b=c]", "ident:a [ ident:b delim:= ident:c ]", ""},
	{"a[b|=\"c\"]", "ident:a [ ident:b delim:| delim:= str:c ]", ""},
}

func TestTokenizeVectors(t *testing.T) {
	if len(tokVecs) < 100 {
		t.Fatalf("only %d token vectors", len(tokVecs))
	}
	for _, c := range tokVecs {
		toks, errs := Tokenize(c.in)
		if got := dumpToks(toks); got != c.want {
			t.Errorf("Tokenize(%q)\n  got  %s\n  want %s", c.in, got, c.want)
		}
		if got := strings.Join(errs, ","); got != c.errs {
			t.Errorf("Tokenize(%q) errs = %q, want %q", c.in, got, c.errs)
		}
		checkTokenInvariants(t, c.in, toks)
	}
	t.Logf("%d token vectors", len(tokVecs))
}

func checkTokenInvariants(t *testing.T, in string, toks []Token) {
	t.Helper()
	pre := Preprocess(in)
	pos := 0
	var b strings.Builder
	for i, tok := range toks {
		if tok.Start != pos || tok.End <= tok.Start || tok.End > len(pre) || pre[tok.Start:tok.End] != tok.Raw {
			t.Fatalf("input %q: token %d (%s) has bad offsets %d..%d raw %q", in, i, dumpTok(tok), tok.Start, tok.End, tok.Raw)
		}
		pos = tok.End
		b.WriteString(tok.Raw)
		if i > 0 && tok.Kind == Whitespace && toks[i-1].Kind == Whitespace {
			t.Fatalf("input %q: adjacent whitespace tokens", in)
		}
	}
	if b.String() != pre {
		t.Fatalf("input %q: Raw concat %q != preprocessed %q", in, b.String(), pre)
	}
}

func TestTokenDetails(t *testing.T) {
	toks, _ := Tokenize(`url(   "x")`)
	if toks[0].Raw != "url(  " || toks[1].Raw != " " {
		t.Errorf("url( + ws + quote: function raw %q, ws raw %q", toks[0].Raw, toks[1].Raw)
	}
	toks, _ = Tokenize("a\r\n\"x\\\r\ny\"")
	if toks[2].Raw != "\"x\\\ny\"" || toks[2].Start != 2 || toks[2].End != 8 {
		t.Errorf("offsets are relative to the preprocessed input: %+v", toks[2])
	}
	toks, _ = Tokenize("12 1.5 1e3 +0 -0.0 1e-2px 5%")
	type nv struct {
		isInt bool
		v     float64
	}
	var got []nv
	for _, tk := range toks {
		if tk.Kind != Whitespace {
			got = append(got, nv{tk.NumIsInteger, tk.Num})
		}
	}
	want := []nv{{true, 12}, {false, 1.5}, {false, 1000}, {true, 0}, {false, 0}, {false, 0.01}, {true, 5}}
	for i := range want {
		if got[i].isInt != want[i].isInt || got[i].v != want[i].v {
			t.Errorf("number %d: got %+v want %+v", i, got[i], want[i])
		}
	}
	for k := Ident; k <= Comment; k++ {
		if s := k.String(); s == "" || strings.HasPrefix(s, "kind(") {
			t.Errorf("Kind(%d) has no name", int(k))
		}
	}
}

// ---------------------------------------------------------------------------
// Component values.

var cvVecs = []struct{ in, want, errs string }{
	{"a(b[c{d}e]f)g", "F:a( ident:b B[ ident:c B{ ident:d } ident:e ] ident:f ) ident:g", ""},
	{") ] }", ") ws ] ws }", ""},
	{"(a]b}c)", "B( ident:a ] ident:b } ident:c )", ""},
	{"{a)b]c}", "B{ ident:a ) ident:b ] ident:c }", ""},
	{"[a)b}c]", "B[ ident:a ) ident:b } ident:c ]", ""},
	{"(a", "B( ident:a EOF", "eof-in-block"},
	{"f(a", "F:f( ident:a EOF", "eof-in-function"},
	{"f(", "F:f( EOF", "eof-in-function"},
	{"({[", "B( B{ B[ EOF EOF EOF", "eof-in-block,eof-in-block,eof-in-block"},
	{"f(g(h()))", "F:f( F:g( F:h( ) ) )", ""},
	{"f(a]b)", "F:f( ident:a ] ident:b )", ""},
	{"url(\"x\" y)", "F:url( str:x ws ident:y )", ""},
	{"url(x)", "url:x", ""},
	{"a/*x*/b", "ident:a ident:b", ""},
	{"(/*x*/)", "B( )", ""},
	{"\"a\nb)", "badstr ws ident:b )", "bad-string"},
	{"(\"a\n)", "B( badstr ws )", "bad-string"},
	{"{}", "B{ }", ""},
	{"", "", ""},
}

func TestComponentValueVectors(t *testing.T) {
	for _, c := range cvVecs {
		vs, errs := ParseComponentValues(c.in)
		if got := dumpCVs(vs); got != c.want {
			t.Errorf("ParseComponentValues(%q)\n  got  %s\n  want %s", c.in, got, c.want)
		}
		if got := strings.Join(errs, ","); got != c.errs {
			t.Errorf("ParseComponentValues(%q) errs = %q, want %q", c.in, got, c.errs)
		}
	}
}

func TestSerializeFlatten(t *testing.T) {
	for _, c := range []struct{ in, ser, serNC string }{
		{"a/*x*/b", "a/*x*/b", "ab"},
		{"a( b [c] {d} )", "a( b [c] {d} )", "a( b [c] {d} )"},
		{"(a/*x*/)/*y*/", "(a/*x*/)", "(a)"}, // a trailing comment belongs to no token
		{"(a[b", "(a[b", "(a[b"},
		{"f(a", "f(a", "f(a"},
		{"u\\72l( 'x' )", "u\\72l( 'x' )", "u\\72l( 'x' )"},
		{"a\r\nb", "a\nb", "a\nb"},
	} {
		vs, _ := ParseComponentValues(c.in)
		if got := Serialize(vs); got != c.ser {
			t.Errorf("Serialize(%q) = %q, want %q", c.in, got, c.ser)
		}
		if got := SerializeNoComments(vs); got != c.serNC {
			t.Errorf("SerializeNoComments(%q) = %q, want %q", c.in, got, c.serNC)
		}
	}
	vs, _ := ParseComponentValues("a(b[c]){d")
	if got, want := dumpToks(Flatten(vs)), "fn:a ident:b [ ident:c ] ) { ident:d"; got != want {
		t.Errorf("Flatten: got %s want %s", got, want)
	}
	// Hand-built trees (no *Tok extras) still serialize.
	hand := []ComponentValue{
		{Func: &FunctionBlock{Name: "f", Closed: true, Values: []ComponentValue{
			{Block: &SimpleBlock{Open: '[', Closed: true}},
			{Block: &SimpleBlock{Open: '{', Closed: false}},
		}}},
		{Block: &SimpleBlock{Open: '(', Closed: true}},
	}
	if got, want := Serialize(hand), "f([]{)()"; got != want {
		t.Errorf("Serialize(hand-built) = %q, want %q", got, want)
	}
}

// ---------------------------------------------------------------------------
// Declaration lists.

var declVecs = []struct{ in, want, errs string }{
	{"color: red", "decl(color)[red]", ""},
	{"color: red;", "decl(color)[red]", ""},
	{"color:red;background:blue", "decl(color)[red] | decl(background)[blue]", ""},
	{"color : red", "decl(color)[red]", ""},
	{"color:", "decl(color)[]", ""},
	{"color:;a:b", "decl(color)[] | decl(a)[b]", ""},
	{"a: b c  ", "decl(a)[b c]", ""},
	{"A:B", "decl(A)[B]", ""},
	{"a\\:b:c", "decl(a:b)[c]", ""},
	{"--x: {a;b}", "decl(--x)[{a;b}]", ""},
	{"--x:", "decl(--x)[]", ""},
	{"; ; a:b ;;", "decl(a)[b]", ""},
	{"", "", ""},
	{" ;\n; ", "", ""},

	// !important
	{"color: red !important", "decl!(color)[red]", ""},
	{"color: red ! IMPORTANT ;", "decl!(color)[red]", ""},
	{"color:red!important", "decl!(color)[red]", ""},
	{"color: red!/**/important/**/", "decl!(color)[red]", ""},
	{"color: red !important foo", "decl(color)[red !important foo]", ""},
	{"color: !important", "decl!(color)[]", ""},
	{"a:b !important;c:d!important", "decl!(a)[b] | decl!(c)[d]", ""},
	{"a:red !important!important", "decl!(a)[red !important]", ""},
	{"a:b!ie", "decl(a)[b!ie]", ""},
	{"a: important", "decl(a)[important]", ""},
	{"a:(!important)", "decl(a)[(!important)]", ""},
	{"a:b !important()", "decl(a)[b !important()]", ""},
	{"a:b !\\49mportant", "decl!(a)[b]", ""},
	{"a:b !important;", "decl!(a)[b]", ""},
	{"a:b ! important !", "decl(a)[b ! important !]", ""},

	// junk between declarations
	{"color red; a:b", "decl(a)[b]", "invalid-declaration"},
	{"color; a:b", "decl(a)[b]", "invalid-declaration"},
	{"color", "", "invalid-declaration"},
	{"color{a:b};c:d", "decl(c)[d]", "invalid-declaration"},
	{"1px; a:b", "decl(a)[b]", "unexpected-token:dimension"},
	{"{a:b}; c:d", "decl(c)[d]", "unexpected-token:{"},
	{"{a:b;e:f} c:d; g:h", "decl(g)[h]", "unexpected-token:{"},
	{"!important", "", "unexpected-token:delim"},
	{":a;b:c", "decl(b)[c]", "unexpected-token:colon"},
	{"} a:b; c:d", "decl(c)[d]", "unexpected-token:}"},
	{") a:b; c:d", "decl(c)[d]", "unexpected-token:)"},
	{"\"x\" a:b; c:d", "decl(c)[d]", "unexpected-token:string"},
	{"f(;) a:b; c:d", "decl(c)[d]", "unexpected-token:function"},
	{"#a; c:d", "decl(c)[d]", "unexpected-token:hash"},
	{"url(x); c:d", "decl(c)[d]", "unexpected-token:url"},
	{"a:b;<!--c:d-->;e:f", "decl(a)[b] | decl(e)[f]", "unexpected-token:CDO"},
	{"a:b;,;e:f", "decl(a)[b] | decl(e)[f]", "unexpected-token:comma"},

	// blocks, strings and urls hide semicolons
	{"a:{;}b; c:d", "decl(a)[{;}b] | decl(c)[d]", ""},
	{"a:[;];b:c", "decl(a)[[;]] | decl(b)[c]", ""},
	{"a:(;);b:c", "decl(a)[(;)] | decl(b)[c]", ""},
	{"a:rgb(1,2;3);b:c", "decl(a)[rgb(1,2;3)] | decl(b)[c]", ""},
	{"a:(; c:d", "decl(a)[(; c:d]", "eof-in-block"},
	{"a:f(", "decl(a)[f(]", "eof-in-function"},
	{"a:\"x;y\"; c:d", "decl(a)[\"x;y\"] | decl(c)[d]", ""},
	{"a:'x;y; c:d", "decl(a)['x;y; c:d]", "unterminated-string"},
	{"a:\"x\ny; c:d", "decl(a)[\"x\ny] | decl(c)[d]", "bad-string"},
	{"a:\"x\\\ny; c:d\"", "decl(a)[\"x\\\ny; c:d\"]", ""},
	{"a:url(x;y); c:d", "decl(a)[url(x;y)] | decl(c)[d]", ""},
	{"a:url(x\"y; c:d)e;f:g", "decl(a)[url(x\"y; c:d)e] | decl(f)[g]", "bad-url"},
	{"a:url(x y; c:d", "decl(a)[url(x y; c:d]", "bad-url"},
	{"a:url( \"x;\" );b:c", "decl(a)[url( \"x;\" )] | decl(b)[c]", ""},
	{"a:b/*;*/c;d:e", "decl(a)[bc] | decl(d)[e]", ""},
	{"a:b/*;c:d", "decl(a)[b]", "unterminated-comment"},

	// unmatched closers are preserved tokens
	{"a:b}c; d:e", "decl(a)[b}c] | decl(d)[e]", ""},
	{"a:b)c]d", "decl(a)[b)c]d]", ""},
	{"a:(b]c})", "decl(a)[(b]c})]", ""},

	// at-rules in declaration lists
	{"@media x { a:b } c:d", "at(media)[ x ]{ a:b } | decl(c)[d]", ""},
	{"@import \"x\"; c:d", "at(import)[ \"x\"]; | decl(c)[d]", ""},
	{"@x", "at(x)[];", "eof-in-at-rule"},
	{"@x y", "at(x)[ y];", "eof-in-at-rule"},
	{"@a{b;c}d:e", "at(a)[]{b;c} | decl(d)[e]", ""},
	{"a:b;@x y;c:d", "decl(a)[b] | at(x)[ y]; | decl(c)[d]", ""},
	{"a:b @x;c:d", "decl(a)[b @x] | decl(c)[d]", ""},
	{"@x{", "at(x)[]{<EOF>", "eof-in-block"},
	{"@x (;) [;] f(;) ; a:b", "at(x)[ (;) [;] f(;) ]; | decl(a)[b]", ""},
	{"@\\61 b;", "at(ab)[];", ""},

	// comments between everything
	{"/**/a/**/:/**/b/**/;/**/c/**/:/**/d/**/", "decl(a)[b] | decl(c)[d]", ""},
}

func TestDeclarationListVectors(t *testing.T) {
	for _, c := range declVecs {
		items, errs := ParseDeclarationList(c.in)
		if got := dumpDecls(items); got != c.want {
			t.Errorf("ParseDeclarationList(%q)\n  got  %s\n  want %s", c.in, got, c.want)
		}
		if got := strings.Join(errs, ","); got != c.errs {
			t.Errorf("ParseDeclarationList(%q) errs = %q, want %q", c.in, got, c.errs)
		}
	}
	t.Logf("%d declaration-list vectors", len(declVecs))
}

func TestDeclarationValueStructure(t *testing.T) {
	items, _ := ParseDeclarationList("background : url( 'a;b' ) no-repeat , f(1px [x]) ! important ")
	if len(items) != 1 || items[0].Decl == nil {
		t.Fatalf("items: %s", dumpDecls(items))
	}
	d := items[0].Decl
	want := "F:url( ws str:a;b ws ) ws ident:no-repeat ws , ws F:f( dim:1|px ws B[ ident:x ] )"
	if got := dumpCVs(d.Value); got != want || !d.Important || d.Name != "background" {
		t.Errorf("got %s important=%v name=%q\nwant %s", got, d.Important, d.Name, want)
	}
}

// ---------------------------------------------------------------------------
// Rule lists.

var ruleVecs = []struct{ in, want, errs string }{
	{"a{b:c}", "q[a]{b:c}", ""},
	{"a{b:c} d{e:f}", "q[a]{b:c} | q[d]{e:f}", ""},
	{"a , b > c {d:e}", "q[a , b > c ]{d:e}", ""},
	{"", "", ""},
	{"  \n ", "", ""},
	{"a{}", "q[a]{}", ""},
	{"{}", "q[]{}", ""},
	{"a{;}", "q[a]{;}", ""},
	{"a{b:c;}", "q[a]{b:c;}", ""},

	// CDO / CDC
	{"<!-- a{} -->", "q[a]{}", ""},
	{"<!----><!-- a{} --> --> b{}", "q[a]{} | q[b]{}", ""},
	{"a <!-- b{}", "q[a <!-- b]{}", ""},
	{"a{<!--}-->", "q[a]{<!--}", ""},
	{"--> a --> {}", "q[a --> ]{}", ""},

	// EOF handling
	{"a{", "q[a]{<EOF>", "eof-in-block"},
	{"a{b:c", "q[a]{b:c<EOF>", "eof-in-block"},
	{"a", "", "eof-in-qualified-rule"},
	{"a{} b", "q[a]{}", "eof-in-qualified-rule"},
	{"a(b{c}", "", "eof-in-function,eof-in-qualified-rule"},
	{"a (b{c}", "", "eof-in-block,eof-in-qualified-rule"},
	{"a[b{c]}d{}", "", "eof-in-block,eof-in-qualified-rule"},

	// at-rules
	{"@import \"x\";a{}", "at(import)[ \"x\"]; | q[a]{}", ""},
	{"@media x{a{b:c}}", "at(media)[ x]{a{b:c}}", ""},
	{"@media (min-width:1px){a{}}b{}", "at(media)[ (min-width:1px)]{a{}} | q[b]{}", ""},
	{"@font-face{font-family:x}", "at(font-face)[]{font-family:x}", ""},
	{"@x;", "at(x)[];", ""},
	{"@x{}", "at(x)[]{}", ""},
	{"@x", "at(x)[];", "eof-in-at-rule"},
	{"@x;@y;", "at(x)[]; | at(y)[];", ""},
	{"@charset \"utf-8\";", "at(charset)[ \"utf-8\"];", ""},
	{"@x (;) {};a{}", "at(x)[ (;) ]{} | q[;a]{}", ""},
	{"a @x {}", "q[a @x ]{}", ""},

	// strings, urls, blocks and comments hide braces
	{"a[href=\"{\"]{b:c}", "q[a[href=\"{\"]]{b:c}", ""},
	{"a[href='}']{b:'}'}", "q[a[href='}']]{b:'}'}", ""},
	{"a{b:'}'}c{}", "q[a]{b:'}'} | q[c]{}", ""},
	{"a(b{c})d{e}", "q[a(b{c})d]{e}", ""},
	{"a[{]{}", "", "eof-in-block,eof-in-block,eof-in-qualified-rule"},
	{"a{b:url(x}y)}", "q[a]{b:url(x}y)}", ""},
	{"a{b:url(x\"}c{d:e}", "q[a]{b:url(x\"}c{d:e}<EOF>", "bad-url,eof-in-block"},
	{"a{b:url(x\"}c{d:e})}f{}", "q[a]{b:url(x\"}c{d:e})} | q[f]{}", "bad-url"},
	{"a{b:url( \"}\" )}c{}", "q[a]{b:url( \"}\" )} | q[c]{}", ""},
	{"a[b=url(]{}c)]{d:e}", "q[a[b=url(]{}c)]]{d:e}", ""},
	{"/* a{} */b{}", "q[b]{}", ""},
	{"a/*{*/{}", "q[a]{}", ""},
	{"a{/*}*/}b{}", "q[a]{} | q[b]{}", ""},
	{"a{} /* b{}", "q[a]{}", "unterminated-comment"},

	// bad strings end at the newline, so the brace after it counts
	{"a{b:\"c\nd}e{}", "q[a]{b:\"c\nd} | q[e]{}", "bad-string"},
	{"a[b=\"c\n]{}", "q[a[b=\"c\n]]{}", "bad-string"},
	{"a{b:\"c}e{}", "q[a]{b:\"c}e{}<EOF>", "unterminated-string,eof-in-block"},
	{"a{b:\"c\\\n}\"}e{}", "q[a]{b:\"c\\\n}\"} | q[e]{}", ""},

	// stray closers at the top level start qualified rules
	{"}a{}", "q[}a]{}", ""},
	{"a{}}b{}", "q[a]{} | q[}b]{}", ""},
	{")];a{}", "q[)];a]{}", ""},

	// nested
	{"a{b{c{d}}}e{}", "q[a]{b{c{d}}} | q[e]{}", ""},
	{"a{b:c}\r\n\r\nd{e:f}", "q[a]{b:c} | q[d]{e:f}", ""},
	{"\\{ {}", "q[\\{ ]{}", ""},
	{"a\\{b{}", "q[a\\{b]{}", ""},
}

func TestRuleListVectors(t *testing.T) {
	for _, c := range ruleVecs {
		rules, errs := ParseRuleList(c.in)
		if got := dumpRules(rules); got != c.want {
			t.Errorf("ParseRuleList(%q)\n  got  %s\n  want %s", c.in, got, c.want)
		}
		if got := strings.Join(errs, ","); got != c.errs {
			t.Errorf("ParseRuleList(%q) errs = %q, want %q", c.in, got, c.errs)
		}
	}
	t.Logf("%d rule-list vectors", len(ruleVecs))

	// Without the top-level flag CDO/CDC start qualified rules.
	rules, _ := ParseRuleListNotTopLevel("<!-- a{} --> b{}")
	if got, want := dumpRules(rules), "q[<!-- a]{} | q[--> b]{}"; got != want {
		t.Errorf("ParseRuleListNotTopLevel: got %s want %s", got, want)
	}
}

func TestRuleStructure(t *testing.T) {
	rules, _ := ParseRuleList("@media x{a[b=\"{\"]{c:d}} e{f:g(h)}")
	if len(rules) != 2 || rules[0].At == nil || rules[1].Qualified == nil {
		t.Fatalf("rules: %s", dumpRules(rules))
	}
	if got, want := dumpCVs(rules[0].At.Block.Values), "ident:a B[ ident:b delim:= str:{ ] B{ ident:c : ident:d }"; got != want {
		t.Errorf("at block: got %s want %s", got, want)
	}
	if got, want := dumpCVs(rules[1].Qualified.Block.Values), "ident:f : F:g( ident:h )"; got != want {
		t.Errorf("q block: got %s want %s", got, want)
	}
	// The contents of a style rule's block can be re-parsed as declarations.
	items, errs := ParseDeclarationList(Serialize(rules[1].Qualified.Block.Values))
	if got := dumpDecls(items); got != "decl(f)[g(h)]" || len(errs) != 0 {
		t.Errorf("re-parse: %s %v", got, errs)
	}
}

// ---------------------------------------------------------------------------
// Robustness.

var fuzzAlphabet = []string{
	"a", "u", "r", "l", "url(", "URL(", "u\\72l(", "(", ")", "{", "}", "[", "]", "\"", "'", "\\", "/", "*",
	"/*", "*/", ";", ":", ",", "!", "!important", "@", "#", "-", "--", "-->", "<!--", "<", ">", "+", ".", "%",
	" ", " ", "\n", "\r", "\f", "\t", "\x00", "0", "1", "9", "e", "E", "f", "é", "\xff", "\x80", "\xe2\x82",
	"\x01", "\x7f", "_", "=", "|", "~", "\\\n", "\\ ", "\\41 ", "\\0", "\\d800", "\\110000",
}

func TestRandomRobustness(t *testing.T) {
	rng := rand.New(rand.NewSource(20261002))
	const n = 200000
	var sb strings.Builder
	for i := 0; i < n; i++ {
		sb.Reset()
		for k := rng.Intn(20); k > 0; k-- {
			sb.WriteString(fuzzAlphabet[rng.Intn(len(fuzzAlphabet))])
		}
		checkRobust(t, sb.String())
		if t.Failed() {
			t.Fatalf("failing input #%d: %q", i, sb.String())
		}
	}
	// Purely random bytes too.
	buf := make([]byte, 16)
	for i := 0; i < 20000; i++ {
		rng.Read(buf)
		checkRobust(t, string(buf[:rng.Intn(len(buf)+1)]))
		if t.Failed() {
			t.Fatalf("failing random-bytes input #%d", i)
		}
	}
	// Deep nesting does not blow up.
	checkRobust(t, strings.Repeat("(", 20000)+strings.Repeat("{[f(", 5000))
}

func checkRobust(t *testing.T, s string) {
	t.Helper()
	pre := Preprocess(s)
	if Preprocess(pre) != pre {
		t.Errorf("Preprocess not idempotent on %q", s)
	}
	if strings.ContainsAny(pre, "\r\f\x00") {
		t.Errorf("Preprocess(%q) left CR/FF/NUL", s)
	}
	toks, errs := Tokenize(s)
	checkTokenInvariants(t, s, toks)

	// Error bookkeeping matches the tokens.
	count := func(name string) (n int) {
		for _, e := range errs {
			if e == name {
				n++
			}
		}
		return
	}
	var nBadURL, nBadStr, nUnterm int
	var noComments strings.Builder
	for i, tk := range toks {
		switch tk.Kind {
		case BadURL:
			nBadURL++
		case BadString:
			nBadStr++
			if i+1 >= len(toks) || toks[i+1].Kind != Whitespace || !strings.HasPrefix(toks[i+1].Raw, "\n") {
				t.Errorf("%q: bad-string not followed by its newline", s)
			}
		}
		if tk.Unterminated {
			nUnterm++
			if i != len(toks)-1 {
				t.Errorf("%q: unterminated token %d is not last", s, i)
			}
		}
		if tk.Kind != Comment {
			noComments.WriteString(tk.Raw)
		}
	}
	if nBadURL != count("bad-url") || nBadStr != count("bad-string") ||
		nUnterm != count("unterminated-string")+count("unterminated-url")+count("unterminated-comment") {
		t.Errorf("%q: error list %v inconsistent with tokens %s", s, errs, dumpToks(toks))
	}

	// Every non-comment token ends up in the component-value tree exactly once.
	vs, _ := ParseComponentValues(s)
	if got := SerializeNoComments(vs); got != noComments.String() {
		t.Errorf("%q: SerializeNoComments = %q, want %q", s, got, noComments.String())
	}
	// Serialize reproduces the source except for trailing comments.
	ser := Serialize(vs)
	if !strings.HasPrefix(pre, ser) {
		t.Errorf("%q: Serialize = %q is not a prefix of %q", s, ser, pre)
	} else {
		rest, _ := Tokenize(pre[len(ser):])
		for _, tk := range rest {
			if tk.Kind != Comment {
				t.Errorf("%q: Serialize dropped non-comment text %q", s, pre[len(ser):])
				break
			}
		}
	}

	// The rule and declaration parsers terminate and produce well-formed items.
	items, _ := ParseDeclarationList(s)
	for _, it := range items {
		if (it.Decl == nil) == (it.At == nil) {
			t.Errorf("%q: malformed DeclItem", s)
		}
		if it.Decl != nil {
			v := it.Decl.Value
			if len(v) > 0 && (cvIs(v[0], Whitespace) || cvIs(v[len(v)-1], Whitespace)) {
				t.Errorf("%q: declaration value not trimmed", s)
			}
			for _, tk := range v {
				if cvIs(tk, Semicolon) {
					t.Errorf("%q: top-level semicolon inside a declaration value", s)
				}
			}
		}
	}
	rules, _ := ParseRuleList(s)
	for _, r := range rules {
		if (r.Qualified == nil) == (r.At == nil) {
			t.Errorf("%q: malformed Rule", s)
		}
		if r.Qualified != nil {
			for _, v := range r.Qualified.Prelude {
				if v.Block != nil && v.Block.Open == '{' {
					t.Errorf("%q: {}-block inside a qualified rule prelude", s)
				}
			}
		}
	}
	ParseRuleListNotTopLevel(s)
}
