// Package unicodex is a reference for "interchange valid" text written from
// the Unicode definitions (not from safehtml's range tables, and without
// unicode/utf8's decoder): a lenient UTF-8 decoder that turns every byte that
// is not part of a well-formed sequence into U+FFFD (one per byte, as Go's
// range loop and the WHATWG decoder's maximal-subpart practice both give for
// the sequences used here is NOT assumed: see Decode), and the predicates for
// noncharacters and controls.
package unicodex

// Noncharacter: U+FDD0..U+FDEF and the last two code points of each of the 17 planes.
func Noncharacter(r rune) bool {
	if r >= 0xFDD0 && r <= 0xFDEF {
		return true
	}
	return r >= 0 && r <= 0x10FFFF && (r&0xFFFF) >= 0xFFFE
}

// ForbiddenControl: NUL, C0 controls other than TAB LF FF CR, DEL, C1 controls.
func ForbiddenControl(r rune) bool {
	switch {
	case r == '\t' || r == '\n' || r == '\f' || r == '\r':
		return false
	case r >= 0 && r < 0x20:
		return true
	case r >= 0x7F && r <= 0x9F:
		return true
	}
	return false
}

// DecodeOne decodes the first well-formed UTF-8 sequence (Unicode Table 3-7)
// of s. ok=false means s[0] does not start a well-formed sequence; size is
// then 1 (Go semantics: each offending byte is replaced on its own).
func DecodeOne(s string) (r rune, size int, ok bool) {
	b0 := s[0]
	switch {
	case b0 < 0x80:
		return rune(b0), 1, true
	case b0 >= 0xC2 && b0 <= 0xDF:
		if len(s) >= 2 && cont(s[1]) {
			return rune(b0&0x1F)<<6 | rune(s[1]&0x3F), 2, true
		}
	case b0 >= 0xE0 && b0 <= 0xEF:
		if len(s) >= 3 && cont(s[2]) {
			lo, hi := byte(0x80), byte(0xBF)
			if b0 == 0xE0 {
				lo = 0xA0
			}
			if b0 == 0xED {
				hi = 0x9F
			}
			if s[1] >= lo && s[1] <= hi {
				return rune(b0&0x0F)<<12 | rune(s[1]&0x3F)<<6 | rune(s[2]&0x3F), 3, true
			}
		}
	case b0 >= 0xF0 && b0 <= 0xF4:
		if len(s) >= 4 && cont(s[2]) && cont(s[3]) {
			lo, hi := byte(0x80), byte(0xBF)
			if b0 == 0xF0 {
				lo = 0x90
			}
			if b0 == 0xF4 {
				hi = 0x8F
			}
			if s[1] >= lo && s[1] <= hi {
				return rune(b0&0x07)<<18 | rune(s[1]&0x3F)<<12 | rune(s[2]&0x3F)<<6 | rune(s[3]&0x3F), 4, true
			}
		}
	}
	return 0xFFFD, 1, false
}

func cont(b byte) bool { return b >= 0x80 && b <= 0xBF }

// Valid reports whether s is well-formed UTF-8.
func Valid(s string) bool {
	for len(s) > 0 {
		_, n, ok := DecodeOne(s)
		if !ok {
			return false
		}
		s = s[n:]
	}
	return true
}

// Runes decodes leniently.
func Runes(s string) []rune {
	var out []rune
	for len(s) > 0 {
		r, n, _ := DecodeOne(s)
		out = append(out, r)
		s = s[n:]
	}
	return out
}

// Encode encodes r (assumed a scalar value) as UTF-8.
func Encode(r rune) string {
	switch {
	case r < 0x80:
		return string([]byte{byte(r)})
	case r < 0x800:
		return string([]byte{0xC0 | byte(r>>6), 0x80 | byte(r)&0x3F})
	case r < 0x10000:
		return string([]byte{0xE0 | byte(r>>12), 0x80 | byte(r>>6)&0x3F, 0x80 | byte(r)&0x3F})
	}
	return string([]byte{0xF0 | byte(r>>18), 0x80 | byte(r>>12)&0x3F, 0x80 | byte(r>>6)&0x3F, 0x80 | byte(r)&0x3F})
}

// Coerce is the reference for "s with forbidden code points and invalid bytes replaced by U+FFFD".
func Coerce(s string) string {
	var out []byte
	for len(s) > 0 {
		r, n, ok := DecodeOne(s)
		if !ok || Noncharacter(r) || ForbiddenControl(r) {
			out = append(out, "\xEF\xBF\xBD"...)
		} else {
			out = append(out, s[:n]...)
		}
		s = s[n:]
	}
	return string(out)
}
