package unicodex

import (
	"math/rand"
	"testing"
	"unicode/utf8"
)

// self-test: agrees with unicode/utf8 (used only here, never in the checks' oracle path)
func TestAgainstStdlib(t *testing.T) {
	r := rand.New(rand.NewSource(1))
	for i := 0; i < 300000; i++ {
		n := r.Intn(6)
		b := make([]byte, n)
		for j := range b {
			if r.Intn(3) == 0 {
				b[j] = byte(r.Intn(256))
			} else {
				b[j] = []byte{0x80, 0xbf, 0xc2, 0xe0, 0xed, 0xf0, 0xf4, 0xa0, 0x9f, 0x90, 0x8f, 0x41}[r.Intn(12)]
			}
		}
		s := string(b)
		if Valid(s) != utf8.ValidString(s) {
			t.Fatalf("Valid(%q)", s)
		}
		got := Runes(s)
		want := []rune(s)
		if len(got) != len(want) {
			t.Fatalf("Runes(%q) = %v want %v", s, got, want)
		}
		for k := range got {
			if got[k] != want[k] {
				t.Fatalf("Runes(%q) = %v want %v", s, got, want)
			}
		}
	}
	for cp := rune(0); cp <= 0x10ffff; cp++ {
		if cp >= 0xd800 && cp <= 0xdfff {
			continue
		}
		if Encode(cp) != string(cp) {
			t.Fatalf("Encode(%x)", cp)
		}
	}
}

func TestPredicates(t *testing.T) {
	n := 0
	for cp := rune(0); cp <= 0x10ffff; cp++ {
		if Noncharacter(cp) {
			n++
		}
	}
	if n != 66 {
		t.Fatalf("noncharacters: %d, want 66", n)
	}
	for _, c := range []rune{0, 1, 8, 0xb, 0xe, 0x1f, 0x7f, 0x80, 0x9f} {
		if !ForbiddenControl(c) {
			t.Fatalf("%x", c)
		}
	}
	for _, c := range []rune{9, 10, 12, 13, 0x20, 0xa0, 0x7e} {
		if ForbiddenControl(c) {
			t.Fatalf("%x", c)
		}
	}
}
