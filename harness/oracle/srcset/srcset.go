// Package srcset implements the HTML Standard's "parse a srcset attribute"
// algorithm (splitting loop and descriptor tokenizer). Candidates that the
// descriptor parser would drop are still returned (Valid=false): their URLs
// were seen by the parser, and checks need to look at them.
package srcset

import "strings"

type Candidate struct {
	URL         string
	Descriptors []string
	Valid       bool // the descriptor parser of the standard accepts the descriptors
	// CommaStripped is the number of trailing commas removed from the URL (step 8 of the algorithm).
	CommaStripped int
}

func ws(c byte) bool { return c == '\t' || c == '\n' || c == '\f' || c == '\r' || c == ' ' }

// Parse runs the algorithm on input.
func Parse(input string) []Candidate {
	var cands []Candidate
	pos, n := 0, len(input)
	for {
		// 4. collect whitespace or commas
		for pos < n && (ws(input[pos]) || input[pos] == ',') {
			pos++
		}
		// 5.
		if pos >= n {
			return cands
		}
		// 6. url
		st := pos
		for pos < n && !ws(input[pos]) {
			pos++
		}
		url := input[st:pos]
		var descs []string
		stripped := 0
		if strings.HasSuffix(url, ",") {
			// 8.1
			for strings.HasSuffix(url, ",") {
				url = url[:len(url)-1]
				stripped++
			}
		} else {
			// 8.2 descriptor tokenizer
			for pos < n && ws(input[pos]) {
				pos++
			}
			cur := ""
			const (
				inDesc = iota
				inParens
				afterDesc
			)
			state := inDesc
		tok:
			for {
				eof := pos >= n
				var c byte
				if !eof {
					c = input[pos]
				}
				switch state {
				case inDesc:
					switch {
					case eof:
						if cur != "" {
							descs = append(descs, cur)
						}
						break tok
					case ws(c):
						if cur != "" {
							descs = append(descs, cur)
							cur = ""
							state = afterDesc
						}
					case c == ',':
						pos++
						if cur != "" {
							descs = append(descs, cur)
						}
						break tok
					case c == '(':
						cur += string(c)
						state = inParens
					default:
						cur += string(c)
					}
				case inParens:
					switch {
					case eof:
						descs = append(descs, cur)
						break tok
					case c == ')':
						cur += string(c)
						state = inDesc
					default:
						cur += string(c)
					}
				case afterDesc:
					switch {
					case eof:
						break tok
					case ws(c):
					default:
						state = inDesc
						pos--
					}
				}
				pos++
			}
		}
		cands = append(cands, Candidate{URL: url, Descriptors: descs, Valid: descriptorsValid(descs), CommaStripped: stripped})
	}
}

func digits(s string) bool {
	if s == "" {
		return false
	}
	for i := 0; i < len(s); i++ {
		if s[i] < '0' || s[i] > '9' {
			return false
		}
	}
	return true
}

// validFloat: HTML "valid floating-point number".
func validFloat(s string) bool {
	i := 0
	if i < len(s) && s[i] == '-' {
		i++
	}
	d := 0
	for i < len(s) && s[i] >= '0' && s[i] <= '9' {
		i++
		d++
	}
	if i < len(s) && s[i] == '.' {
		i++
		f := 0
		for i < len(s) && s[i] >= '0' && s[i] <= '9' {
			i++
			f++
		}
		if f == 0 {
			return false
		}
		d += f
	}
	if d == 0 {
		return false
	}
	if i < len(s) && (s[i] == 'e' || s[i] == 'E') {
		i++
		if i < len(s) && (s[i] == '-' || s[i] == '+') {
			i++
		}
		e := 0
		for i < len(s) && s[i] >= '0' && s[i] <= '9' {
			i++
			e++
		}
		if e == 0 {
			return false
		}
	}
	return i == len(s)
}

// descriptorsValid implements the descriptor parser (steps 9-16).
func descriptorsValid(descs []string) bool {
	w, d, h := false, false, false
	for _, s := range descs {
		if s == "" {
			return false
		}
		last := s[len(s)-1]
		num := s[:len(s)-1]
		switch last {
		case 'w':
			if w || d || !digits(num) || strings.Trim(num, "0") == "" {
				return false
			}
			w = true
		case 'x':
			if w || d || h || !validFloat(num) || strings.HasPrefix(num, "-") {
				return false
			}
			d = true
		case 'h':
			if h || d || !digits(num) || strings.Trim(num, "0") == "" {
				return false
			}
			h = true
		default:
			return false
		}
	}
	if h && !w {
		return false
	}
	return true
}
