package srcset

import (
	"reflect"
	"testing"
)

func TestVectors(t *testing.T) {
	type c = Candidate
	for _, v := range []struct {
		in   string
		want []c
	}{
		{"", nil},
		{" , ,", nil},
		{"a.png", []c{{"a.png", nil, true, 0}}},
		{"a.png 2x", []c{{"a.png", []string{"2x"}, true, 0}}},
		{"a.png 2x, b.png 100w", []c{{"a.png", []string{"2x"}, true, 0}, {"b.png", []string{"100w"}, true, 0}}},
		{"a.png, b.png", []c{{"a.png", nil, true, 1}, {"b.png", nil, true, 0}}},
		{"a.png,b.png", []c{{"a.png,b.png", nil, true, 0}}},
		{"a.png,,, b", []c{{"a.png", nil, true, 3}, {"b", nil, true, 0}}},
		{",a.png", []c{{"a.png", nil, true, 0}}},
		{"a 1x 2x", []c{{"a", []string{"1x", "2x"}, false, 0}}},
		{"a (x, y) 1x,b", []c{{"a", []string{"(x, y)", "1x"}, false, 0}, {"b", nil, true, 0}}},
		{"a (x,\ty) ,b", []c{{"a", []string{"(x,\ty)"}, false, 0}, {"b", nil, true, 0}}},
		{"a (unclosed, b 2x", []c{{"a", []string{"(unclosed, b 2x"}, false, 0}}},
		{"a\f1x\r,\nb\t2x", []c{{"a", []string{"1x"}, true, 0}, {"b", []string{"2x"}, true, 0}}},
		{"a 1e2x", []c{{"a", []string{"1e2x"}, true, 0}}},
		{"a 0x1p-2x", []c{{"a", []string{"0x1p-2x"}, false, 0}}},
		{"a 1.x", []c{{"a", []string{"1.x"}, false, 0}}},
		{"a -1x", []c{{"a", []string{"-1x"}, false, 0}}},
		{"a 0w", []c{{"a", []string{"0w"}, false, 0}}},
		{"a 10h", []c{{"a", []string{"10h"}, false, 0}}},
		{"a 10w 10h", []c{{"a", []string{"10w", "10h"}, true, 0}}},
		{"javascript:x 1x , %2c", []c{{"javascript:x", []string{"1x"}, true, 0}, {"%2c", nil, true, 0}}},
	} {
		got := Parse(v.in)
		if !reflect.DeepEqual(got, v.want) {
			t.Errorf("Parse(%q) = %+v, want %+v", v.in, got, v.want)
		}
	}
}
