// Package whaturl implements the part of the WHATWG URL Standard's basic URL
// parser that decides which scheme a string has: input preprocessing (strip
// leading/trailing C0 control or space, remove all ASCII tab or newline), the
// scheme start state and the scheme state. Written from the specification.
package whaturl

import "strings"

// Preprocess performs steps 1-3 of the basic URL parser on the input.
func Preprocess(s string) string {
	i, j := 0, len(s)
	for i < j && s[i] <= 0x20 {
		i++
	}
	for j > i && s[j-1] <= 0x20 {
		j--
	}
	s = s[i:j]
	if strings.ContainsAny(s, "\t\n\r") {
		var b strings.Builder
		for k := 0; k < len(s); k++ {
			if c := s[k]; c != '\t' && c != '\n' && c != '\r' {
				b.WriteByte(c)
			}
		}
		s = b.String()
	}
	return s
}

func alpha(c byte) bool { return 'a' <= c && c <= 'z' || 'A' <= c && c <= 'Z' }
func digit(c byte) bool { return '0' <= c && c <= '9' }

// Scheme returns the lower-cased scheme the URL parser finds in s (parsing
// without a base URL or with any base: the scheme states do not depend on it),
// and whether there is one. rest is the remainder after the ':'.
func Scheme(s string) (scheme string, rest string, ok bool) {
	s = Preprocess(s)
	if len(s) == 0 || !alpha(s[0]) {
		return "", s, false
	}
	for i := 0; i < len(s); i++ {
		c := s[i]
		switch {
		case alpha(c) || digit(c) || c == '+' || c == '-' || c == '.':
		case c == ':':
			return strings.ToLower(s[:i]), s[i+1:], true
		default:
			return "", s, false
		}
	}
	return "", s, false
}

// IsJavascript reports whether a browser would treat s as a javascript: URL.
func IsJavascript(s string) bool {
	sc, _, ok := Scheme(s)
	return ok && sc == "javascript"
}

var special = map[string]bool{"http": true, "https": true, "ftp": true, "ws": true, "wss": true, "file": true}

// IsSpecial reports whether scheme (lower case) is a special scheme.
func IsSpecial(scheme string) bool { return special[scheme] }
