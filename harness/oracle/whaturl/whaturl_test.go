package whaturl

import (
	"math/rand"
	"net/url"
	"strings"
	"testing"
)

func TestVectors(t *testing.T) {
	for _, c := range []struct {
		in, scheme string
		ok         bool
	}{
		{"javascript:alert(1)", "javascript", true},
		{"JaVaScRiPt:alert(1)", "javascript", true},
		{" \x00\x1f javascript:x", "javascript", true},
		{"java\tscr\nipt\r:x", "javascript", true},
		{"\tjavascript:x", "javascript", true},
		{"javascript\x00:x", "", false},
		{"java script:x", "", false},
		{"1javascript:x", "", false},
		{"javascript", "", false},
		{"/javascript:x", "", false},
		{"a+b-c.d:x", "a+b-c.d", true},
		{"http://x", "http", true},
		{"", "", false},
		{":x", "", false},
		{"javascript&colon;x", "", false},
		{"İavascript:x", "", false},
		{"javascrıpt:x", "", false},
	} {
		sc, _, ok := Scheme(c.in)
		if sc != c.scheme || ok != c.ok {
			t.Errorf("Scheme(%q) = %q,%v want %q,%v", c.in, sc, ok, c.scheme, c.ok)
		}
	}
}

// Differential self-test against net/url where the two specifications agree:
// no leading/trailing controls or spaces, no TAB/LF/CR.
func TestAgainstNetURL(t *testing.T) {
	r := rand.New(rand.NewSource(7))
	alphabet := "abJ1+-.:/?#@x%_ "
	for i := 0; i < 200000; i++ {
		n := r.Intn(8)
		b := make([]byte, n)
		for j := range b {
			b[j] = alphabet[r.Intn(len(alphabet))]
		}
		s := strings.TrimSpace(string(b))
		u, err := url.Parse(s)
		sc, _, ok := Scheme(s)
		if err != nil {
			continue
		}
		if ok && u.Scheme != sc {
			// net/url rejects "first path segment in URL cannot contain colon" with err; with a scheme it must agree
			t.Fatalf("Scheme(%q) = %q, net/url %q", s, sc, u.Scheme)
		}
		if !ok && u.Scheme != "" {
			t.Fatalf("Scheme(%q) = none, net/url %q", s, u.Scheme)
		}
	}
}
