package htmltok

import (
	"bytes"
	"html"
	"math/rand"
	"reflect"
	"strings"
	"testing"
	"time"
	"unicode/utf8"
)

// vec is one hand-written conformance vector derived from the spec prose.
// want holds Token.String() of every expected token. errs is the
// comma-joined list of expected parse errors; "-" means "not checked".
type vec struct {
	name  string
	in    string
	opt   Options
	want  []string
	final Final
	errs  string
}

var (
	scripting = Options{Scripting: true}
	foreign   = Options{NoStateSwitch: true}
)

func fin(state string) Final         { return Final{State: state} }
func finEl(state, el string) Final   { return Final{State: state, Element: el} }
func finTag(state, tag string) Final { return Final{State: state, InTag: tag} }
func finEnd(state, tag string) Final { return Final{State: state, InTag: tag, EndTag: true} }
func finAttr(state, a string) Final  { return Final{State: state, InTag: "a", InAttr: a} }
func w(s ...string) []string         { return s }
func rep(s string, n int) string     { return strings.Repeat(s, n) }
func cat(parts ...string) string     { return strings.Join(parts, "") }
func errsOf(codes ...string) string  { return strings.Join(codes, ",") }
func nulErr(n int) string            { return strings.TrimSuffix(rep("unexpected-null-character,", n), ",") }
func eofScript() string              { return "eof-in-script-html-comment-like-text" }
func scriptEOF(in, st string) vec    { return scriptEOFText(in, st, strings.TrimPrefix(in, "<script>")) }
func scriptEOFText(in, st, text string) vec {
	v := vec{name: "eof " + st, in: in, final: finEl(st, "script"), errs: "-"}
	v.want = w("<script>")
	if text != "" {
		v.want = append(v.want, "script:"+quote(text))
	}
	return v
}
func quote(s string) string { return strings.TrimPrefix(Token{Kind: Text, Data: s}.String(), "data:") }

var vectors = []vec{
	// ---- plain text and tag-open corner cases --------------------------------
	{name: "empty", in: "", want: nil, final: fin("Data"), errs: ""},
	{name: "text", in: "hello", want: w(`data:"hello"`), final: fin("Data"), errs: ""},
	{name: "newline normalisation", in: "a\r\nb\rc\n\rd", want: w(`data:"a\nb\nc\n\nd"`), final: fin("Data"), errs: ""},
	{name: "lt space is text", in: "a < b", want: w(`data:"a < b"`), final: fin("Data"), errs: "invalid-first-character-of-tag-name"},
	{name: "lt digit is text", in: "<1>", want: w(`data:"<1>"`), final: fin("Data"), errs: "invalid-first-character-of-tag-name"},
	{name: "lt gt is text", in: "<>", want: w(`data:"<>"`), final: fin("Data"), errs: "invalid-first-character-of-tag-name"},
	{name: "lt lt a", in: "<<a>", want: w(`data:"<"`, `<a>`), final: fin("Data"), errs: "invalid-first-character-of-tag-name"},
	{name: "empty end tag dropped", in: "a</>b", want: w(`data:"ab"`), final: fin("Data"), errs: "missing-end-tag-name"},
	{name: "eof after lt", in: "a<", want: w(`data:"a<"`), final: fin("TagOpen"), errs: "eof-before-tag-name"},
	{name: "eof after lt slash", in: "a</", want: w(`data:"a</"`), final: fin("EndTagOpen"), errs: "eof-before-tag-name"},
	{name: "simple tags", in: "<p>x</p>", want: w(`<p>`, `data:"x"`, `</p>`), final: fin("Data"), errs: ""},
	{name: "tag name case", in: "<DiV></dIv>", want: w(`<div>`, `</div>`), final: fin("Data"), errs: ""},
	{name: "tag name odd chars", in: "<a<b=c\"'>", want: w("<a<b=c\"'>"), final: fin("Data"), errs: ""},
	{name: "NUL in data is kept", in: "a\x00b", want: w(`data:"a\x00b"`), final: fin("Data"), errs: nulErr(1)},
	{name: "NUL in tag name", in: "<a\x00b>", want: w("<a�b>"), final: fin("Data"), errs: nulErr(1)},
	{name: "invalid utf8 passes through", in: "\xff<a \xfe=\xfd>\xc3", want: w(`data:"\xff"`, "<a \xfe=\xfd>", `data:"\xc3"`), final: fin("Data"), errs: ""},

	// ---- comments --------------------------------------------------------------
	{name: "comment", in: "<!-- a -->", want: w(`<!-- a -->`), final: fin("Data"), errs: ""},
	{name: "comment empty", in: "<!---->", want: w(`<!---->`), final: fin("Data"), errs: ""},
	{name: "comment abrupt 1", in: "<!-->x", want: w(`<!---->`, `data:"x"`), final: fin("Data"), errs: "abrupt-closing-of-empty-comment"},
	{name: "comment abrupt 2", in: "<!--->x", want: w(`<!---->`, `data:"x"`), final: fin("Data"), errs: "abrupt-closing-of-empty-comment"},
	{name: "comment bang close", in: "<!--a--!>x", want: w(`<!--a-->`, `data:"x"`), final: fin("Data"), errs: "incorrectly-closed-comment"},
	{name: "comment bang not close", in: "<!--a--!b-->", want: w(`<!--a--!b-->`), final: fin("Data"), errs: ""},
	{name: "comment bang dash", in: "<!--a--!-->", want: w(`<!--a--!-->`), final: fin("Data"), errs: ""},
	{name: "comment nested", in: "<!-- <!-- -->x", want: w(`<!-- <!-- -->`, `data:"x"`), final: fin("Data"), errs: "nested-comment"},
	{name: "comment nested close 3 dashes", in: "<!--<!--->", want: w(`<!--<!--->`), final: fin("Data"), errs: "nested-comment"},
	{name: "comment lt bang dash dash gt", in: "<!--<!-->", want: w(`<!--<!-->`), final: fin("Data"), errs: ""},
	{name: "comment lt bang dash x", in: "<!--<!-x-->", want: w(`<!--<!-x-->`), final: fin("Data"), errs: ""},
	{name: "comment lt lt", in: "<!--<<!x-->", want: w(`<!--<<!x-->`), final: fin("Data"), errs: ""},
	{name: "comment single dashes", in: "<!--a-b-->", want: w(`<!--a-b-->`), final: fin("Data"), errs: ""},
	{name: "comment double dash inside", in: "<!--a--b-->", want: w(`<!--a--b-->`), final: fin("Data"), errs: ""},
	{name: "comment many dashes", in: "<!--a---->", want: w(`<!--a---->`), final: fin("Data"), errs: ""},
	{name: "comment start dash text", in: "<!---a-->", want: w(`<!---a-->`), final: fin("Data"), errs: ""},
	{name: "comment gt inside", in: "<!--a>b-->", want: w(`<!--a>b-->`), final: fin("Data"), errs: ""},
	{name: "comment NUL", in: "<!--a\x00-->", want: w("<!--a�-->"), final: fin("Data"), errs: nulErr(1)},
	{name: "comment eof start", in: "<!--", want: w(`<!---->`), final: fin("CommentStart"), errs: "eof-in-comment"},
	{name: "comment eof start dash", in: "<!---", want: w(`<!---->`), final: fin("CommentStartDash"), errs: "eof-in-comment"},
	{name: "comment eof", in: "<!--abc", want: w(`<!--abc-->`), final: fin("Comment"), errs: "eof-in-comment"},
	{name: "comment eof end dash", in: "<!--abc-", want: w(`<!--abc-->`), final: fin("CommentEndDash"), errs: "eof-in-comment"},
	{name: "comment eof end", in: "<!--abc--", want: w(`<!--abc-->`), final: fin("CommentEnd"), errs: "eof-in-comment"},
	{name: "comment eof end bang", in: "<!--abc--!", want: w(`<!--abc-->`), final: fin("CommentEndBang"), errs: "eof-in-comment"},
	{name: "comment eof lt", in: "<!--a<", want: w(`<!--a<-->`), final: fin("CommentLessThanSign"), errs: "eof-in-comment"},
	{name: "comment eof lt bang", in: "<!--a<!", want: w(`<!--a<!-->`), final: fin("CommentLessThanSignBang"), errs: "eof-in-comment"},
	{name: "comment eof lt bang dash", in: "<!--a<!-", want: w(`<!--a<!-->`), final: fin("CommentLessThanSignBangDash"), errs: "eof-in-comment"},
	{name: "comment eof lt bang dash dash", in: "<!--a<!--", want: w(`<!--a<!-->`), final: fin("CommentLessThanSignBangDashDash"), errs: "eof-in-comment"},

	// ---- bogus comments and markup declarations ---------------------------------
	{name: "bogus pi", in: "<?x>y", want: w(`<!--?x-->`, `data:"y"`), final: fin("Data"), errs: "unexpected-question-mark-instead-of-tag-name"},
	{name: "bogus end tag", in: "</ x>y", want: w(`<!-- x-->`, `data:"y"`), final: fin("Data"), errs: "invalid-first-character-of-tag-name"},
	{name: "bogus decl", in: "<!x>y", want: w(`<!--x-->`, `data:"y"`), final: fin("Data"), errs: "incorrectly-opened-comment"},
	{name: "bogus decl empty", in: "<!>y", want: w(`<!---->`, `data:"y"`), final: fin("Data"), errs: "incorrectly-opened-comment"},
	{name: "bogus single dash", in: "<!-x-->y", want: w(`<!---x---->`, `data:"y"`), final: fin("Data"), errs: "incorrectly-opened-comment"},
	{name: "bogus NUL", in: "<?\x00>", want: w("<!--?�-->"), final: fin("Data"), errs: "unexpected-question-mark-instead-of-tag-name,unexpected-null-character"},
	{name: "bogus eof", in: "<?x", want: w(`<!--?x-->`), final: fin("BogusComment"), errs: "unexpected-question-mark-instead-of-tag-name"},
	{name: "markup decl eof", in: "<!", want: w(`<!---->`), final: fin("MarkupDeclarationOpen"), errs: "incorrectly-opened-comment"},
	{name: "markup decl one dash eof", in: "<!-", want: w(`<!----->`), final: fin("BogusComment"), errs: "incorrectly-opened-comment"},
	{name: "partial doctype is bogus", in: "<!DOCTYP", want: w(`<!--DOCTYP-->`), final: fin("BogusComment"), errs: "incorrectly-opened-comment"},
	{name: "cdata in html is bogus", in: "<![CDATA[x]]>y", want: w(`<!--[CDATA[x]]-->`, `data:"y"`), final: fin("Data"), errs: "cdata-in-html-content"},

	// ---- DOCTYPE -----------------------------------------------------------------
	{name: "doctype", in: "<!DOCTYPE html>x", want: w(`<!DOCTYPE html>`, `data:"x"`), final: fin("Data"), errs: ""},
	{name: "doctype lower", in: "<!doctype HTML>", want: w(`<!DOCTYPE html>`), final: fin("Data"), errs: ""},
	{name: "doctype no name", in: "<!doctype>", want: w(`<!DOCTYPE  quirks>`), final: fin("Data"), errs: "missing-doctype-name"},
	{name: "doctype no space", in: "<!DOCTYPEhtml>", want: w(`<!DOCTYPE html>`), final: fin("Data"), errs: "missing-whitespace-before-doctype-name"},
	{name: "doctype public system", in: `<!DOCTYPE html PUBLIC "-//W3C//DTD HTML 4.01//EN" 'http://www.w3.org/TR/html4/strict.dtd'>`,
		want: w(`<!DOCTYPE html PUBLIC "-//W3C//DTD HTML 4.01//EN" SYSTEM "http://www.w3.org/TR/html4/strict.dtd">`), final: fin("Data"), errs: ""},
	{name: "doctype system", in: `<!DOCTYPE html system "about:legacy-compat" >`, want: w(`<!DOCTYPE html SYSTEM "about:legacy-compat">`), final: fin("Data"), errs: ""},
	{name: "doctype bogus tail", in: "<!DOCTYPE html foo>x", want: w(`<!DOCTYPE html quirks>`, `data:"x"`), final: fin("Data"), errs: "invalid-character-sequence-after-doctype-name"},
	{name: "doctype abrupt public id ends at gt", in: `<!DOCTYPE html PUBLIC "a>b`, want: w(`<!DOCTYPE html PUBLIC "a" quirks>`, `data:"b"`), final: fin("Data"), errs: "abrupt-doctype-public-identifier"},
	{name: "doctype junk after system id", in: `<!DOCTYPE html SYSTEM "a" x>y`, want: w(`<!DOCTYPE html SYSTEM "a">`, `data:"y"`), final: fin("Data"), errs: "unexpected-character-after-doctype-system-identifier"},
	{name: "doctype eof kw", in: "<!doctype", want: w(`<!DOCTYPE  quirks>`), final: fin("DOCTYPE"), errs: "eof-in-doctype"},
	{name: "doctype eof before name", in: "<!doctype ", want: w(`<!DOCTYPE  quirks>`), final: fin("BeforeDOCTYPEName"), errs: "eof-in-doctype"},
	{name: "doctype eof name", in: "<!doctype h\x00", want: w("<!DOCTYPE h� quirks>"), final: fin("DOCTYPEName"), errs: "unexpected-null-character,eof-in-doctype"},
	{name: "doctype eof public id", in: `<!doctype h public 'x`, want: w(`<!DOCTYPE h PUBLIC "x" quirks>`), final: fin("DOCTYPEPublicIdentifierSingleQuoted"), errs: "eof-in-doctype"},

	// ---- attributes ---------------------------------------------------------------
	{name: "attr quoting styles", in: `<a b="1" c='2' d=3 e>`, want: w(`<a b="1" c='2' d=3 e>`), final: fin("Data"), errs: ""},
	{name: "attr spaces around eq", in: "<a b\t=\n\"1\">", want: w(`<a b="1">`), final: fin("Data"), errs: ""},
	{name: "attr upper case", in: `<A HREF=X>`, want: w(`<a href=X>`), final: fin("Data"), errs: ""},
	{name: "attr unquoted slash is value", in: `<a b=1/>`, want: w(`<a b=1/>`), final: fin("Data"), errs: ""},
	{name: "self closing after quoted", in: `<a b="1"/>`, want: w(`<a b="1"/>`), final: fin("Data"), errs: ""},
	{name: "self closing after name", in: `<br/>`, want: w(`<br/>`), final: fin("Data"), errs: ""},
	{name: "self closing after attr name", in: `<a b/>`, want: w(`<a b/>`), final: fin("Data"), errs: ""},
	{name: "solidus in tag", in: `<a / b>`, want: w(`<a b>`), final: fin("Data"), errs: "unexpected-solidus-in-tag"},
	{name: "solidus between attrs", in: `<a b/c>`, want: w(`<a b c>`), final: fin("Data"), errs: "unexpected-solidus-in-tag"},
	{name: "missing ws between attrs", in: `<a b="1"c='2'>`, want: w(`<a b="1" c='2'>`), final: fin("Data"), errs: "missing-whitespace-between-attributes"},
	{name: "eq at attr name start", in: `<a =b>`, want: w(`<a =b>`), final: fin("Data"), errs: "unexpected-equals-sign-before-attribute-name"},
	{name: "eq eq", in: `<a ==b>`, want: w(`<a ==b>`), final: fin("Data"), errs: "unexpected-equals-sign-before-attribute-name"},
	{name: "missing attr value", in: `<a b=>`, want: w(`<a b>`), final: fin("Data"), errs: "missing-attribute-value"},
	{name: "empty quoted value", in: `<a b="">`, want: w(`<a b="">`), final: fin("Data"), errs: ""},
	{name: "duplicate attr", in: `<a B=1 c b=2 C>`, want: w(`<a b=1 c !b=2 !c>`), final: fin("Data"), errs: "duplicate-attribute,duplicate-attribute"},
	{name: "quote in attr name", in: `<a "b' c<>`, want: w(`<a "b' c<>`), final: fin("Data"), errs: rep("unexpected-character-in-attribute-name,", 2) + "unexpected-character-in-attribute-name"},
	{name: "odd chars in unquoted value", in: "<a b=c\"d'e<f=g`h>", want: w("<a b=c\"d'e<f=g`h>"), final: fin("Data"), errs: strings.TrimSuffix(rep("unexpected-character-in-unquoted-attribute-value,", 5), ",")},
	{name: "gt inside quoted value", in: `<a b="x>y" c='>'>`, want: w(`<a b="x>y" c='>'>`), final: fin("Data"), errs: ""},
	{name: "newline in value", in: "<a b=\"x\r\ny\">", want: w("<a b=\"x\ny\">"), final: fin("Data"), errs: ""},
	{name: "NUL in attr name and values", in: "<a c\x00=d\x00 e='\x00' f=\"\x00\">", want: w("<a c�=d� e='�' f=\"�\">"), final: fin("Data"), errs: nulErr(4)},
	{name: "attrs on end tag", in: `</a b=c d>x`, want: w(`</a b=c d>`, `data:"x"`), final: fin("Data"), errs: "end-tag-with-attributes"},
	{name: "self closing end tag", in: `</a/>`, want: w(`</a/>`), final: fin("Data"), errs: "end-tag-with-trailing-solidus"},
	{name: "attr value then eof is dropped", in: `x<a b="1" c`, want: w(`data:"x"`), final: finAttr("AttributeName", "c"), errs: "eof-in-tag"},

	// ---- EOF in every tag / attribute state -----------------------------------------
	{name: "eof TagName", in: "<a", want: nil, final: finTag("TagName", "a"), errs: "eof-in-tag"},
	{name: "eof TagName end", in: "</ab", want: nil, final: finEnd("TagName", "ab"), errs: "eof-in-tag"},
	{name: "eof BeforeAttributeName", in: "<a ", want: nil, final: finTag("BeforeAttributeName", "a"), errs: "eof-in-tag"},
	{name: "eof AttributeName", in: "<a Bc", want: nil, final: finAttr("AttributeName", "bc"), errs: "eof-in-tag"},
	{name: "eof AfterAttributeName", in: "<a b ", want: nil, final: finAttr("AfterAttributeName", "b"), errs: "eof-in-tag"},
	{name: "eof BeforeAttributeValue", in: "<a b=", want: nil, final: finAttr("BeforeAttributeValue", "b"), errs: "eof-in-tag"},
	{name: "eof BeforeAttributeValue ws", in: "<a b = ", want: nil, final: finAttr("BeforeAttributeValue", "b"), errs: "eof-in-tag"},
	{name: "eof AttributeValueDoubleQuoted", in: `<a b="x`, want: nil, final: finAttr("AttributeValueDoubleQuoted", "b"), errs: "eof-in-tag"},
	{name: "eof AttributeValueSingleQuoted", in: `<a b='x`, want: nil, final: finAttr("AttributeValueSingleQuoted", "b"), errs: "eof-in-tag"},
	{name: "eof AttributeValueUnquoted", in: `<a b=x`, want: nil, final: finAttr("AttributeValueUnquoted", "b"), errs: "eof-in-tag"},
	{name: "eof AfterAttributeValueQuoted", in: `<a b="x"`, want: nil, final: finTag("AfterAttributeValueQuoted", "a"), errs: "eof-in-tag"},
	{name: "eof SelfClosingStartTag", in: `<a/`, want: nil, final: finTag("SelfClosingStartTag", "a"), errs: "eof-in-tag"},
	{name: "eof in charref in attr reports return state", in: `<a b="&am`, want: nil, final: finAttr("AttributeValueDoubleQuoted", "b"), errs: "eof-in-tag"},
	{name: "eof in numeric charref in attr", in: `<a b='&#x41`, want: nil, final: finAttr("AttributeValueSingleQuoted", "b"), errs: "missing-semicolon-after-character-reference,eof-in-tag"},

	// ---- character references ----------------------------------------------------------
	{name: "charref basic", in: "&amp;&lt;&gt;&quot;&apos;", want: w(`data:"&<>\"'"`), final: fin("Data"), errs: ""},
	{name: "charref legacy eq in data", in: "&lt=", want: w(`data:"<="`), final: fin("Data"), errs: "missing-semicolon-after-character-reference"},
	{name: "charref legacy alnum in data", in: "&ltx", want: w(`data:"<x"`), final: fin("Data"), errs: "missing-semicolon-after-character-reference"},
	{name: "charref legacy eq in attr", in: `<a b="&lt=">`, want: w(`<a b="&lt=">`), final: fin("Data"), errs: ""},
	{name: "charref legacy alnum in attr", in: `<a b='&ltx'>`, want: w(`<a b='&ltx'>`), final: fin("Data"), errs: ""},
	{name: "charref legacy digit in attr", in: `<a b=&copy1>`, want: w(`<a b=&copy1>`), final: fin("Data"), errs: ""},
	{name: "charref legacy end of attr", in: `<a b="&lt">`, want: w(`<a b="<">`), final: fin("Data"), errs: "missing-semicolon-after-character-reference"},
	{name: "charref legacy other follower in attr", in: `<a b="&lt-&amp &gt">`, want: w(`<a b="<-& >">`), final: fin("Data"), errs: rep("missing-semicolon-after-character-reference,", 2) + "missing-semicolon-after-character-reference"},
	{name: "charref legacy unquoted then gt", in: `<a b=&lt>`, want: w(`<a b=<>`), final: fin("Data"), errs: "missing-semicolon-after-character-reference"},
	{name: "charref semicolon in attr", in: `<a b="&lt;x&amp;=">`, want: w(`<a b="<x&=">`), final: fin("Data"), errs: ""},
	{name: "charref url in attr", in: `<a href="?a=1&copy=2&reg;&x=3">`, want: w(`<a href="?a=1&copy=2®&x=3">`), final: fin("Data"), errs: ""},
	{name: "charref hex", in: "&#x41;&#X42;&#x6a;", want: w(`data:"ABj"`), final: fin("Data"), errs: ""},
	{name: "charref dec no semi", in: "&#65 &#66", want: w(`data:"A B"`), final: fin("Data"), errs: "missing-semicolon-after-character-reference,missing-semicolon-after-character-reference"},
	{name: "charref zero", in: "&#0;", want: w("data:\"�\""), final: fin("Data"), errs: "null-character-reference"},
	{name: "charref c1", in: "&#x80;&#x9F;&#150;", want: w("data:\"€Ÿ–\""), final: fin("Data"), errs: rep("control-character-reference,", 2) + "control-character-reference"},
	{name: "charref c1 unmapped", in: "&#x81;", want: w("data:" + quote("\u0081")), final: fin("Data"), errs: "control-character-reference"},
	{name: "charref CR", in: "&#13;&#10;", want: w(`data:"\r\n"`), final: fin("Data"), errs: "control-character-reference"},
	{name: "charref surrogate", in: "&#xD800;&#xDFFF;", want: w("data:\"��\""), final: fin("Data"), errs: "surrogate-character-reference,surrogate-character-reference"},
	{name: "charref out of range", in: "&#x110000;&#99999999999999999999;", want: w("data:\"��\""), final: fin("Data"), errs: "character-reference-outside-unicode-range,character-reference-outside-unicode-range"},
	{name: "charref max", in: "&#x10FFFF;&#x1F600;", want: w("data:" + quote("\U0010FFFF\U0001F600")), final: fin("Data"), errs: "noncharacter-character-reference"},
	{name: "charref nonchar kept", in: "&#xFFFE;&#xFDD0;", want: w("data:" + quote("\uFFFE\uFDD0")), final: fin("Data"), errs: "noncharacter-character-reference,noncharacter-character-reference"},
	{name: "charref no digits", in: "&#;&#x;&#xg&#", want: w(`data:"&#;&#x;&#xg&#"`), final: fin("Data"), errs: strings.TrimSuffix(rep("absence-of-digits-in-numeric-character-reference,", 4), ",")},
	{name: "charref notit", in: "&notit;", want: w(`data:"¬it;"`), final: fin("Data"), errs: "missing-semicolon-after-character-reference"},
	{name: "charref notin", in: "&notin;", want: w(`data:"∉"`), final: fin("Data"), errs: ""},
	{name: "charref notit in attr", in: `<a b="&notit;">`, want: w(`<a b="&notit;">`), final: fin("Data"), errs: ""},
	{name: "charref notin in attr", in: `<a b="&notin;">`, want: w(`<a b="∉">`), final: fin("Data"), errs: ""},
	{name: "charref not semi in attr", in: `<a b="&not;it">`, want: w(`<a b="¬it">`), final: fin("Data"), errs: ""},
	{name: "charref unknown", in: "&foo;&bar", want: w(`data:"&foo;&bar"`), final: fin("Data"), errs: "unknown-named-character-reference"},
	{name: "charref unknown in attr", in: `<a b=&foo;>`, want: w(`<a b=&foo;>`), final: fin("Data"), errs: "unknown-named-character-reference"},
	{name: "charref bare amp", in: "a & b && c &", want: w(`data:"a & b && c &"`), final: fin("Data"), errs: ""},
	{name: "charref amp eof", in: "&amp", want: w(`data:"&"`), final: fin("Data"), errs: "missing-semicolon-after-character-reference"},
	{name: "charref ampamp", in: "&ampamp;", want: w(`data:"&amp;"`), final: fin("Data"), errs: "missing-semicolon-after-character-reference"},
	{name: "charref two code points", in: "&NotEqualTilde;&fjlig;", want: w("data:\"≂̸fj\""), final: fin("Data"), errs: ""},
	{name: "charref html5 names", in: "&quest;&num;&colon;&sol;&bsol;&Tab;&NewLine;&lpar;&rpar;&lbrace;&rcub;&period;&comma;&excl;&dollar;&percnt;&lsqb;&rbrack;&commat;&semi;&equals;&plus;&ast;&lowbar;&grave;&Hat;&vert;&nbsp;&NonBreakingSpace;",
		want: w("data:" + quote("?#:/\\\t\n(){}.,!$%[]@;=+*_`^|  ")), final: fin("Data"), errs: ""},
	{name: "charref case sensitive", in: "&LT;&Lt;&lT;&AMP;&Amp;", want: w("data:" + quote("<≪&lT;&&Amp;")), final: fin("Data"), errs: "unknown-named-character-reference,unknown-named-character-reference"},
	{name: "charref longest name", in: "&CounterClockwiseContourIntegral;", want: w("data:\"∳\""), final: fin("Data"), errs: ""},
	{name: "charref in rcdata", in: "<title>&amp;&#x41;&lt=</title>", want: w(`<title>`, `rcdata:"&A<="`, `</title>`), final: fin("Data"), errs: "missing-semicolon-after-character-reference"},
	{name: "charref not in rawtext/script/plaintext", in: "<style>&amp;</style><script>&amp;</script><plaintext>&amp;", want: w(`<style>`, `rawtext:"&amp;"`, `</style>`, `<script>`, `script:"&amp;"`, `</script>`, `<plaintext>`, `plaintext:"&amp;"`), final: finEl("PLAINTEXT", "plaintext"), errs: ""},
	{name: "charref not in comment or tag name", in: "<!--&amp;--><a&amp; b&amp;=1>", want: w(`<!--&amp;-->`, `<a&amp; b&amp;=1>`), final: fin("Data"), errs: ""},

	// ---- RCDATA --------------------------------------------------------------------------
	{name: "rcdata basic", in: "<title>a<b>&amp;</title >x", want: w(`<title>`, `rcdata:"a<b>&"`, `</title>`, `data:"x"`), final: fin("Data"), errs: ""},
	{name: "rcdata end tag upper self closing", in: "<title>x</TITLE/>y", want: w(`<title>`, `rcdata:"x"`, `</title/>`, `data:"y"`), final: fin("Data"), errs: "end-tag-with-trailing-solidus"},
	{name: "rcdata longer name is text", in: "<title>x</titlex>y</title>", want: w(`<title>`, `rcdata:"x</titlex>y"`, `</title>`), final: fin("Data"), errs: ""},
	{name: "rcdata shorter name is text", in: "<title>x</titl>y</title>", want: w(`<title>`, `rcdata:"x</titl>y"`, `</title>`), final: fin("Data"), errs: ""},
	{name: "rcdata CR after name is end tag", in: "<title>x</title\r>y", want: w(`<title>`, `rcdata:"x"`, `</title>`, `data:"y"`), final: fin("Data"), errs: ""},
	{name: "rcdata end tag with attrs", in: "<title>x</title a=b>y", want: w(`<title>`, `rcdata:"x"`, `</title a=b>`, `data:"y"`), final: fin("Data"), errs: "end-tag-with-attributes"},
	{name: "rcdata name followed by other char", in: "<title>x</title-></title>", want: w(`<title>`, `rcdata:"x</title->"`, `</title>`), final: fin("Data"), errs: ""},
	{name: "rcdata comment is text", in: "<textarea><!-- </textarea> -->", want: w(`<textarea>`, `rcdata:"<!-- "`, `</textarea>`, `data:" -->"`), final: fin("Data"), errs: ""},
	{name: "rcdata other end tag is text", in: "<textarea></title></textarea>", want: w(`<textarea>`, `rcdata:"</title>"`, `</textarea>`), final: fin("Data"), errs: ""},
	{name: "rcdata NUL", in: "<title>\x00", want: w(`<title>`, "rcdata:\"�\""), final: finEl("RCDATA", "title"), errs: nulErr(1)},
	{name: "rcdata escaped end tag", in: "<title>&lt;/title>", want: w(`<title>`, `rcdata:"</title>"`), final: finEl("RCDATA", "title"), errs: ""},
	{name: "rcdata eof lt", in: "<title>x<", want: w(`<title>`, `rcdata:"x<"`), final: finEl("RCDATALessThanSign", "title"), errs: ""},
	{name: "rcdata eof lt slash", in: "<title>x</", want: w(`<title>`, `rcdata:"x</"`), final: finEl("RCDATAEndTagOpen", "title"), errs: ""},
	{name: "rcdata eof end tag name", in: "<title>x</TiTle", want: w(`<title>`, `rcdata:"x</TiTle"`), final: finEl("RCDATAEndTagName", "title"), errs: ""},
	{name: "rcdata eof in end tag attrs", in: "<title>x</title ", want: w(`<title>`, `rcdata:"x"`), final: finEnd("BeforeAttributeName", "title"), errs: "eof-in-tag"},
	{name: "rcdata self-closing start tag still switches", in: "<title/><b></title>", want: w(`<title/>`, `rcdata:"<b>"`, `</title>`), final: fin("Data"), errs: ""},
	{name: "rcdata start tag with attrs", in: `<TEXTAREA name="x">&lt;<i></TEXTAREA>`, want: w(`<textarea name="x">`, `rcdata:"<<i>"`, `</textarea>`), final: fin("Data"), errs: ""},

	// ---- RAWTEXT -------------------------------------------------------------------------
	{name: "rawtext style", in: "<style>a&amp;<b></style>x", want: w(`<style>`, `rawtext:"a&amp;<b>"`, `</style>`, `data:"x"`), final: fin("Data"), errs: ""},
	{name: "rawtext xmp", in: "<xmp></xmpp><!--</xmp>-->", want: w(`<xmp>`, `rawtext:"</xmpp><!--"`, `</xmp>`, `data:"-->"`), final: fin("Data"), errs: ""},
	{name: "rawtext iframe noembed noframes", in: "<iframe><a></iframe><noembed><a></noembed><noframes><a></noframes>", want: w(`<iframe>`, `rawtext:"<a>"`, `</iframe>`, `<noembed>`, `rawtext:"<a>"`, `</noembed>`, `<noframes>`, `rawtext:"<a>"`, `</noframes>`), final: fin("Data"), errs: ""},
	{name: "rawtext end tag ws", in: "<style>x</STYLE\t>", want: w(`<style>`, `rawtext:"x"`, `</style>`), final: fin("Data"), errs: ""},
	{name: "rawtext NUL", in: "<style>\x00", want: w(`<style>`, "rawtext:\"�\""), final: finEl("RAWTEXT", "style"), errs: nulErr(1)},
	{name: "rawtext eof states", in: "<style>x</sty", want: w(`<style>`, `rawtext:"x</sty"`), final: finEl("RAWTEXTEndTagName", "style"), errs: ""},
	{name: "rawtext eof lt", in: "<style><", want: w(`<style>`, `rawtext:"<"`), final: finEl("RAWTEXTLessThanSign", "style"), errs: ""},
	{name: "rawtext eof lt slash", in: "<style></", want: w(`<style>`, `rawtext:"</"`), final: finEl("RAWTEXTEndTagOpen", "style"), errs: ""},

	// ---- noscript ------------------------------------------------------------------------
	{name: "noscript scripting on", in: "<noscript><b></noscript>", opt: scripting, want: w(`<noscript>`, `rawtext:"<b>"`, `</noscript>`), final: fin("Data"), errs: ""},
	{name: "noscript scripting off", in: "<noscript><b></noscript>", want: w(`<noscript>`, `<b>`, `</noscript>`), final: fin("Data"), errs: ""},

	// ---- script data ------------------------------------------------------------------------
	{name: "script basic", in: "<script>a<b&amp;</script>x", want: w(`<script>`, `script:"a<b&amp;"`, `</script>`, `data:"x"`), final: fin("Data"), errs: ""},
	{name: "script end tag case and ws", in: "<script>x</SCRIPT >", want: w(`<script>`, `script:"x"`, `</script>`), final: fin("Data"), errs: ""},
	{name: "script other end tag", in: "<script></scrip></scriptx></script>", want: w(`<script>`, `script:"</scrip></scriptx>"`, `</script>`), final: fin("Data"), errs: ""},
	{name: "script double escaped", in: "<script><!--<script></script>--></script>x", want: w(`<script>`, `script:"<!--<script></script>-->"`, `</script>`, `data:"x"`), final: fin("Data"), errs: ""},
	{name: "script escaped end tag ends element", in: "<script><!--</script>x", want: w(`<script>`, `script:"<!--"`, `</script>`, `data:"x"`), final: fin("Data"), errs: ""},
	{name: "script escaped other start tag", in: "<script><!--<scriptx></script>y", want: w(`<script>`, `script:"<!--<scriptx>"`, `</script>`, `data:"y"`), final: fin("Data"), errs: ""},
	{name: "script double escape end", in: "<script><!--<script></script></script>y", want: w(`<script>`, `script:"<!--<script></script>"`, `</script>`, `data:"y"`), final: fin("Data"), errs: ""},
	{name: "script double escape case insensitive and slash", in: "<script><!--<SCRIPT/x--></script>y", want: w(`<script>`, `script:"<!--<SCRIPT/x-->"`, `</script>`, `data:"y"`), final: fin("Data"), errs: ""},
	{name: "script double escape end other name", in: "<script><!--<script></scriptx></script>--></script>", want: w(`<script>`, `script:"<!--<script></scriptx></script>-->"`, `</script>`), final: fin("Data"), errs: ""},
	{name: "script comment closed", in: "<script><!-- a --> <b></script>", want: w(`<script>`, `script:"<!-- a --> <b>"`, `</script>`), final: fin("Data"), errs: ""},
	{name: "script short comment", in: "<script><!--><script></script>", want: w(`<script>`, `script:"<!--><script>"`, `</script>`), final: fin("Data"), errs: ""},
	{name: "script escape start aborted", in: "<script><!-x</script>", want: w(`<script>`, `script:"<!-x"`, `</script>`), final: fin("Data"), errs: ""},
	{name: "script escaped dash dash dash", in: "<script><!--a---></script>", want: w(`<script>`, `script:"<!--a--->"`, `</script>`), final: fin("Data"), errs: ""},
	{name: "script NULs", in: "<script>\x00<!--\x00-\x00--\x00<script>\x00-\x00--\x00", want: w(`<script>`, "script:"+quote("�<!--�-�--�<script>�-�--�")), final: finEl("ScriptDataDoubleEscaped", "script"), errs: nulErr(7) + "," + eofScript()},
	{name: "script eof double escaped", in: "<script><!--<script>", want: w(`<script>`, `script:"<!--<script>"`), final: finEl("ScriptDataDoubleEscaped", "script"), errs: eofScript()},
	{name: "script eof plain", in: "<script>x", want: w(`<script>`, `script:"x"`), final: finEl("ScriptData", "script"), errs: ""},
	scriptEOF("<script><", "ScriptDataLessThanSign"),
	scriptEOF("<script></", "ScriptDataEndTagOpen"),
	scriptEOF("<script></scr", "ScriptDataEndTagName"),
	scriptEOF("<script><!", "ScriptDataEscapeStart"),
	scriptEOF("<script><!-", "ScriptDataEscapeStartDash"),
	scriptEOF("<script><!--", "ScriptDataEscapedDashDash"),
	scriptEOF("<script><!--a", "ScriptDataEscaped"),
	scriptEOF("<script><!--a-", "ScriptDataEscapedDash"),
	scriptEOF("<script><!--a<", "ScriptDataEscapedLessThanSign"),
	scriptEOF("<script><!--a</", "ScriptDataEscapedEndTagOpen"),
	scriptEOF("<script><!--a</scr", "ScriptDataEscapedEndTagName"),
	scriptEOF("<script><!--<scr", "ScriptDataDoubleEscapeStart"),
	scriptEOF("<script><!--<script>-", "ScriptDataDoubleEscapedDash"),
	scriptEOF("<script><!--<script>--", "ScriptDataDoubleEscapedDashDash"),
	scriptEOF("<script><!--<script><", "ScriptDataDoubleEscapedLessThanSign"),
	scriptEOF("<script><!--<script></scr", "ScriptDataDoubleEscapeEnd"),

	// ---- PLAINTEXT ------------------------------------------------------------------------------
	{name: "plaintext", in: "<plaintext>a</plaintext>&amp;\x00<!--", want: w(`<plaintext>`, "plaintext:"+quote("a</plaintext>&amp;�<!--")), final: finEl("PLAINTEXT", "plaintext"), errs: nulErr(1)},

	// ---- NoStateSwitch / CDATA ---------------------------------------------------------------------
	{name: "foreign no switch", in: "<title><b></title><script><a></script><plaintext><i>", opt: foreign, want: w(`<title>`, `<b>`, `</title>`, `<script>`, `<a>`, `</script>`, `<plaintext>`, `<i>`), final: fin("Data"), errs: ""},
	{name: "cdata", in: "a<![CDATA[x<y>&amp;\x00]]>z", opt: foreign, want: w(`data:"a"`, `cdata:"x<y>&amp;\x00"`, `data:"z"`), final: fin("Data"), errs: ""},
	{name: "cdata empty", in: "<![CDATA[]]>", opt: foreign, want: nil, final: fin("Data"), errs: ""},
	{name: "cdata brackets", in: "<![CDATA[]]]>", opt: foreign, want: w(`cdata:"]"`), final: fin("Data"), errs: ""},
	{name: "cdata false ends", in: "<![CDATA[a]]b]>c]]]]>d", opt: foreign, want: w(`cdata:"a]]b]>c]]"`, `data:"d"`), final: fin("Data"), errs: ""},
	{name: "cdata eof", in: "<![CDATA[x", opt: foreign, want: w(`cdata:"x"`), final: fin("CDATASection"), errs: "eof-in-cdata"},
	{name: "cdata eof bracket", in: "<![CDATA[x]", opt: foreign, want: w(`cdata:"x]"`), final: fin("CDATASectionBracket"), errs: "eof-in-cdata"},
	{name: "cdata eof end", in: "<![CDATA[x]]", opt: foreign, want: w(`cdata:"x]]"`), final: fin("CDATASectionEnd"), errs: "eof-in-cdata"},
	{name: "cdata lower case is bogus", in: "<![cdata[x]]>", opt: foreign, want: w(`<!--[cdata[x]]-->`), final: fin("Data"), errs: "incorrectly-opened-comment"},

	// ---- InitialElement (extra) ----------------------------------------------------------------------
	{name: "initial element title", in: "a<b></title>c", opt: Options{InitialElement: "title"}, want: w(`rcdata:"a<b>"`, `</title>`, `data:"c"`), final: fin("Data"), errs: ""},
	{name: "initial element script", in: "a</style>", opt: Options{InitialElement: "script"}, want: w(`script:"a</style>"`), final: finEl("ScriptData", "script"), errs: ""},
}

func tokStrings(r Result) []string {
	var out []string
	for _, t := range r.Tokens {
		out = append(out, t.String())
	}
	return out
}

func TestVectors(t *testing.T) {
	if len(vectors) < 80 {
		t.Fatalf("only %d vectors", len(vectors))
	}
	seen := map[string]bool{}
	for _, v := range vectors {
		if seen[v.name] {
			t.Errorf("duplicate vector name %q", v.name)
		}
		seen[v.name] = true
		t.Run(v.name, func(t *testing.T) {
			r := Tokenize([]byte(v.in), v.opt)
			got := tokStrings(r)
			if !reflect.DeepEqual(got, v.want) && !(len(got) == 0 && len(v.want) == 0) {
				t.Errorf("input %q\n got tokens %q\nwant tokens %q", v.in, got, v.want)
			}
			if r.Final != v.final {
				t.Errorf("input %q\n got final %+v\nwant final %+v", v.in, r.Final, v.final)
			}
			if v.errs != "-" {
				if g := strings.Join(r.Errors, ","); g != v.errs {
					t.Errorf("input %q\n got errors %q\nwant errors %q", v.in, g, v.errs)
				}
			}
			checkInvariants(t, []byte(v.in), v.opt, r)
		})
	}
	t.Logf("%d vectors", len(vectors))
}

// TestOffsets checks Start/End, RawValue and the attribute offsets.
func TestOffsets(t *testing.T) {
	in := "ab<a href=\"x&amp;y\" b='q' c=u&lt d>t&amp;<!--c--></a\r\n>e<title>r</titl</title>"
	r := Tokenize([]byte(in), Options{})
	src := string(r.Input)
	type exp struct{ str, src string }
	want := []exp{
		{`data:"ab"`, "ab"},
		{`<a href="x&y" b='q' c=u< d>`, `<a href="x&amp;y" b='q' c=u&lt d>`},
		{`data:"t&"`, "t&amp;"},
		{`<!--c-->`, "<!--c-->"},
		{`</a>`, "</a\n>"},
		{`data:"e"`, "e"},
		{`<title>`, "<title>"},
		{`rcdata:"r</titl"`, "r</titl"},
		{`</title>`, "</title>"},
	}
	if len(r.Tokens) != len(want) {
		t.Fatalf("got %q", tokStrings(r))
	}
	for i, tok := range r.Tokens {
		if tok.String() != want[i].str || src[tok.Start:tok.End] != want[i].src {
			t.Errorf("token %d: got %s source %q, want %s source %q", i, tok, src[tok.Start:tok.End], want[i].str, want[i].src)
		}
	}
	a := r.Tokens[1].Attrs
	type aexp struct {
		name, val, raw, src string
		q                   byte
		has                 bool
	}
	awant := []aexp{
		{"href", "x&y", "x&amp;y", `href="x&amp;y"`, '"', true},
		{"b", "q", "q", `b='q'`, '\'', true},
		{"c", "u<", "u&lt", `c=u&lt`, 0, true},
		{"d", "", "", `d`, 0, false},
	}
	if len(a) != len(awant) {
		t.Fatalf("attrs: %+v", a)
	}
	for i, x := range a {
		e := awant[i]
		if x.Name != e.name || x.Value != e.val || x.RawValue != e.raw || x.Quote != e.q || x.HasValue != e.has || src[x.Start:x.End] != e.src {
			t.Errorf("attr %d: got %+v (source %q), want %+v", i, x, src[x.Start:x.End], e)
		}
		if x.HasValue && src[x.ValueStart:x.ValueEnd] != x.RawValue {
			t.Errorf("attr %d: value offsets %d:%d give %q, RawValue %q", i, x.ValueStart, x.ValueEnd, src[x.ValueStart:x.ValueEnd], x.RawValue)
		}
	}
	// Text interrupted by a dropped "</>" is coalesced and spans it.
	r = Tokenize([]byte("a</>b"), Options{})
	if len(r.Tokens) != 1 || r.Tokens[0].Start != 0 || r.Tokens[0].End != 5 {
		t.Errorf("a</>b: %+v", r.Tokens)
	}
	// A comment cut off by EOF ends at the end of input.
	r = Tokenize([]byte("x<!--abc--"), Options{})
	if len(r.Tokens) != 2 || r.Tokens[1].Start != 1 || r.Tokens[1].End != 10 {
		t.Errorf("x<!--abc--: %+v", r.Tokens)
	}
	// CDATA text covers only the characters, not the delimiters.
	r = Tokenize([]byte("<![CDATA[xy]]>"), foreign)
	if len(r.Tokens) != 1 || r.Tokens[0].Start != 9 || r.Tokens[0].End != 11 {
		t.Errorf("cdata: %+v", r.Tokens)
	}
}

func TestSkeleton(t *testing.T) {
	in := `<!DOCTYPE html><!-- c --><a B=1 b=2 c>text</a x><br/><title>t</title><style>s</style><script>j</script><textarea></textarea><plaintext>p`
	got := Skeleton(Tokenize([]byte(in), Options{}))
	want := []string{"<!DOCTYPE>", "<!---->", "<a b !b c>", "</a>", "<br/>", "<title>", "#rcdata", "</title>",
		"<style>", "#rawtext", "</style>", "<script>", "#script", "</script>", "<textarea>", "</textarea>", "<plaintext>", "#plaintext"}
	if !reflect.DeepEqual(got, want) {
		t.Errorf("got  %q\nwant %q", got, want)
	}
	got = Skeleton(Tokenize([]byte("<svg><![CDATA[x]]></svg>"), foreign))
	want = []string{"<svg>", "#cdata", "</svg>"}
	if !reflect.DeepEqual(got, want) {
		t.Errorf("got  %q\nwant %q", got, want)
	}
}

func TestPreprocess(t *testing.T) {
	for in, want := range map[string]string{
		"":             "",
		"\r":           "\n",
		"\r\n":         "\n",
		"\n\r":         "\n\n",
		"\r\r\n\r":     "\n\n\n",
		"a\r\n\r\nb\r": "a\n\nb\n",
	} {
		if got := string(Preprocess([]byte(in))); got != want {
			t.Errorf("Preprocess(%q) = %q, want %q", in, got, want)
		}
	}
}

// TestLegacyTable cross-checks the embedded list of semicolon-less names with
// the standard library's table, in both directions.
func TestLegacyTable(t *testing.T) {
	if len(legacyNames) != 106 || len(legacy) != 106 {
		t.Fatalf("legacy table has %d names / %d entries, want 106", len(legacyNames), len(legacy))
	}
	isStdLegacy := func(n string) (string, bool) {
		in := "&" + n + " "
		out := html.UnescapeString(in)
		if out == in || utf8.RuneCountInString(out) != 2 {
			return "", false
		}
		return strings.TrimSuffix(out, " "), true
	}
	for _, n := range legacyNames {
		if len(n) > maxLegacyLen {
			t.Errorf("%s longer than maxLegacyLen", n)
		}
		v, ok := isStdLegacy(n)
		if !ok || v != legacy[n] {
			t.Errorf("legacy name %q: stdlib says %q,%v; table has %q", n, v, ok, legacy[n])
		}
	}
	// Exhaustively: no other alphanumeric string of length 2..3 (4 when not
	// -short) is a semicolon-less name.
	const alnum = "0123456789ABCDEFGHIJKLMNOPQRSTUVWXYZabcdefghijklmnopqrstuvwxyz"
	maxLen := 4
	if testing.Short() {
		maxLen = 3
	}
	var rec func(prefix []byte)
	count := 0
	rec = func(prefix []byte) {
		if len(prefix) >= 2 {
			_, std := isStdLegacy(string(prefix))
			_, mine := legacy[string(prefix)]
			if std != mine {
				t.Errorf("%q: stdlib legacy=%v, table=%v", prefix, std, mine)
			}
			if mine {
				count++
			}
		}
		if len(prefix) == maxLen {
			return
		}
		for i := 0; i < len(alnum); i++ {
			rec(append(prefix, alnum[i]))
		}
	}
	rec(nil)
	// The remaining (longer) HTML 4 / common HTML5 names must not be legacy.
	for _, n := range strings.Fields(`nbsp1 apos hellip mdash ndash euro trade lsquo rsquo ldquo rdquo bull prime Prime
		oline frasl weierp image real alefsym larr uarr rarr darr harr crarr lArr uArr rArr dArr hArr forall
		part exist empty nabla isin notin ni prod sum minus lowast radic prop infin ang and or cap cup int
		there4 sim cong asymp ne equiv le ge sub sup nsub sube supe oplus otimes perp sdot lceil rceil lfloor
		rfloor lang rang loz spades clubs hearts diams OElig oelig Scaron scaron Yuml circ tilde ensp emsp
		thinsp zwnj zwj lrm rlm sbquo bdquo dagger Dagger permil lsaquo rsaquo fnof Alpha Beta Gamma Delta
		Epsilon Zeta Eta Theta Iota Kappa Lambda Mu Nu Xi Omicron Pi Rho Sigma Tau Upsilon Phi Chi Psi Omega
		alpha beta gamma delta epsilon zeta eta theta iota kappa lambda mu nu xi omicron pi rho sigmaf sigma
		tau upsilon phi chi psi omega thetasym upsih piv quest num colon sol bsol Tab NewLine lpar rpar
		lbrace rbrace period comma excl dollar percnt lsqb rsqb lbrack rbrack commat semi equals plus ast
		midast lowbar grave DiacriticalGrave Hat vert verbar VerticalLine lcub rcub NonBreakingSpace
		Copy Reg Amp Lt Gt Quot Nbsp NBSP`) {
		if _, mine := legacy[n]; mine {
			t.Errorf("%q unexpectedly in legacy table", n)
		}
		if _, std := isStdLegacy(n); std {
			t.Errorf("%q is legacy according to stdlib", n)
		}
	}
}

func TestLookupSemi(t *testing.T) {
	for name, want := range map[string]string{
		"amp": "&", "lt": "<", "LT": "<", "semi": ";", "notin": "∉", "not": "¬",
		"NotEqualTilde": "≂̸", "fjlig": "fj", "nbsp": " ", "bne": "=⃥", "ThickSpace": "  ",
	} {
		if got, ok := lookupSemi(name); !ok || got != want {
			t.Errorf("lookupSemi(%q) = %q,%v want %q", name, got, ok, want)
		}
	}
	for _, name := range []string{"notit", "ampx", "amp1", "foo", "ltlt", "x", "1", "Amp", "copyx", "nots"} {
		if got, ok := lookupSemi(name); ok {
			t.Errorf("lookupSemi(%q) = %q, want not found", name, got)
		}
	}
}

// checkInvariants checks properties that must hold for any input.
func checkInvariants(t *testing.T, in []byte, opt Options, r Result) {
	t.Helper()
	pre := Preprocess(in)
	if !bytes.Equal(pre, r.Input) {
		t.Errorf("Result.Input differs from Preprocess(input)")
	}
	if r.Final.State == "" {
		t.Errorf("empty Final.State for %q", in)
	}
	prevEnd := 0
	var prev *Token
	for i := range r.Tokens {
		tok := &r.Tokens[i]
		if tok.Start < prevEnd || tok.End < tok.Start || tok.End > len(pre) {
			t.Errorf("input %q: token %d %s has bad offsets %d:%d (previous end %d, len %d)", in, i, tok, tok.Start, tok.End, prevEnd, len(pre))
			return
		}
		prevEnd = tok.End
		if tok.Kind == Text {
			if tok.Data == "" {
				t.Errorf("input %q: empty text token %d", in, i)
			}
			if prev != nil && prev.Kind == Text && prev.Mode == tok.Mode {
				t.Errorf("input %q: uncoalesced text tokens %d", in, i)
			}
			if opt.NoStateSwitch && tok.Mode != ModeData && tok.Mode != ModeCDATA {
				t.Errorf("input %q: NoStateSwitch but text mode %v", in, tok.Mode)
			}
		}
		if tok.Kind == StartTag || tok.Kind == EndTag {
			if tok.Name == "" || pre[tok.Start] != '<' || pre[tok.End-1] != '>' {
				t.Errorf("input %q: tag token %d %s has bad source %q", in, i, tok, pre[tok.Start:tok.End])
			}
			seen := map[string]bool{}
			for _, a := range tok.Attrs {
				if a.Name == "" {
					t.Errorf("input %q: empty attribute name in %s", in, tok)
				}
				if a.Dropped != seen[a.Name] {
					t.Errorf("input %q: attribute %q Dropped=%v but seen=%v", in, a.Name, a.Dropped, seen[a.Name])
				}
				seen[a.Name] = true
				if a.Start < tok.Start || a.End > tok.End || a.End < a.Start {
					t.Errorf("input %q: attribute %q offsets %d:%d outside tag %d:%d", in, a.Name, a.Start, a.End, tok.Start, tok.End)
				}
				if a.HasValue && string(pre[a.ValueStart:a.ValueEnd]) != a.RawValue {
					t.Errorf("input %q: attribute %q RawValue mismatch", in, a.Name)
				}
				if !a.HasValue && (a.Value != "" || a.RawValue != "" || a.Quote != 0) {
					t.Errorf("input %q: attribute %q has no value but %+v", in, a.Name, a)
				}
				if a.Quote != 0 && (pre[a.ValueStart-1] != a.Quote || pre[a.ValueEnd] != a.Quote) {
					t.Errorf("input %q: attribute %q quotes not at value boundaries", in, a.Name)
				}
			}
		}
		prev = tok
	}
	// A text-only document (no '<', '&', NUL) is returned verbatim.
	if !bytes.ContainsAny(pre, "<&\x00") && opt.InitialElement == "" {
		if len(pre) == 0 {
			if len(r.Tokens) != 0 {
				t.Errorf("tokens for empty input")
			}
		} else if len(r.Tokens) != 1 || r.Tokens[0].Data != string(pre) {
			t.Errorf("input %q: plain text not returned verbatim: %q", in, tokStrings(r))
		}
	}
}

var fuzzAlphabet = []string{
	"<", ">", "/", "!", "-", "--", "=", "\"", "'", "&", ";", "#", "x", " ", "\n", "\r", "\t", "\f", "\x00", "?", "]", "[",
	"a", "b", "script", "SCRIPT", "title", "textarea", "style", "plaintext", "noscript", "xmp", "iframe",
	"<!--", "-->", "--!>", "<script>", "</script>", "<title>", "</title>", "<style>", "</style>", "<![CDATA[", "]]>",
	"<!DOCTYPE", "doctype", "PUBLIC", "SYSTEM", "html", "&amp", "&lt", "&not", "&notin;", "&#", "&#x", "41", "0", "D800",
	"\xff", "\xc3\xa9", "\xe2\x82", "`", "href", "id=", "é",
}

func randomInput(rng *rand.Rand) []byte {
	var b []byte
	n := rng.Intn(30)
	for i := 0; i < n; i++ {
		if rng.Intn(8) == 0 {
			b = append(b, byte(rng.Intn(256)))
		} else {
			b = append(b, fuzzAlphabet[rng.Intn(len(fuzzAlphabet))]...)
		}
	}
	return b
}

// TestRandomNoPanic feeds pseudo-random markup soup and checks the invariants.
func TestRandomNoPanic(t *testing.T) {
	rng := rand.New(rand.NewSource(1))
	n := 200000
	if testing.Short() {
		n = 20000
	}
	opts := []Options{{}, scripting, foreign, {InitialElement: "script"}, {InitialElement: "textarea", Scripting: true}}
	for i := 0; i < n; i++ {
		in := randomInput(rng)
		opt := opts[rng.Intn(len(opts))]
		r := Tokenize(in, opt)
		checkInvariants(t, in, opt, r)
		if t.Failed() {
			t.Fatalf("failing input: %q opt %+v", in, opt)
		}
	}
}

// TestPrefixFinalConsistency: tokenizing a prefix of an input must yield a
// token list that is a prefix of the full list, except possibly for the last
// token of the prefix run (which EOF handling may have cut short or
// synthesised) - this pins down that EOF handling never disturbs earlier
// tokens, and that tokenization is deterministic left to right.
func TestPrefixFinalConsistency(t *testing.T) {
	rng := rand.New(rand.NewSource(2))
	for i := 0; i < 20000; i++ {
		in := Preprocess(randomInput(rng))
		if bytes.HasSuffix(in, []byte("\n")) {
			continue
		}
		full := Tokenize(in, Options{})
		cut := 0
		if len(in) > 0 {
			cut = rng.Intn(len(in) + 1)
		}
		part := Tokenize(in[:cut], Options{})
		for j := 0; j+1 < len(part.Tokens); j++ {
			if j >= len(full.Tokens) || !reflect.DeepEqual(part.Tokens[j], full.Tokens[j]) {
				t.Fatalf("input %q cut at %d: token %d differs:\nprefix %s\nfull   %q", in, cut, j, part.Tokens[j], tokStrings(full))
			}
		}
	}
}

// TestLinearTime guards against accidental quadratic behaviour.
func TestLinearTime(t *testing.T) {
	inputs := map[string]string{
		"amps":        rep("&", 1<<20),
		"amp alnum":   rep("&aaaaaaaaaaaaaaaaaaaaaaaaaaaaaaaaaaaaaaaaaaaaaaaaaaaaaaaaaaaaaa", 1<<14),
		"long alnum":  "&" + rep("a", 1<<20),
		"lts":         rep("<", 1<<20),
		"open tags":   rep("<a ", 1<<18),
		"attrs":       "<a " + rep("b=c ", 1<<10) + ">",
		"rcdata ends": "<title>" + rep("</titl", 1<<17),
		"script":      "<script>" + rep("<!--<script>", 1<<16),
		"comments":    rep("<!--<!--", 1<<17),
		"cdata":       "<![CDATA[" + rep("]", 1<<20),
		"dashes":      "<!--" + rep("-", 1<<20),
	}
	for name, in := range inputs {
		start := time.Now()
		Tokenize([]byte(in), foreign)
		Tokenize([]byte(in), Options{})
		if d := time.Since(start); d > 5*time.Second {
			t.Errorf("%s: took %v", name, d)
		}
	}
}

func FuzzTokenize(f *testing.F) {
	for _, v := range vectors {
		f.Add([]byte(v.in), v.opt.Scripting, v.opt.NoStateSwitch)
	}
	f.Fuzz(func(t *testing.T, in []byte, scripting, noSwitch bool) {
		opt := Options{Scripting: scripting, NoStateSwitch: noSwitch}
		r := Tokenize(in, opt)
		checkInvariants(t, in, opt, r)
	})
}
