module xnetdiff

go 1.23

require (
	golang.org/x/net v0.34.0
	verif v0.0.0
)

replace verif => ../../..

replace github.com/google/safehtml => /repo

replace golang.org/x/text => golang.org/x/text v0.3.3
