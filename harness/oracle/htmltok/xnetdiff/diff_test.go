// Package xnetdiff is a differential self-test of verif/oracle/htmltok
// against golang.org/x/net/html's tokenizer. It lives in its own module so
// that the main module does not depend on x/net.
//
// Random markup is generated with a fixed-seed math/rand (a grammar of
// tags / attributes / comments / text / character references, plus an
// unstructured "soup" of markup fragments, plus random truncation so that
// EOF lands inside every construct), tokenized by both, and the normalised
// token streams are compared:
//
//	(kind, tag name, attribute names+values in order, self-closing, text/comment data)
//
// Where the two disagree the WHATWG spec decides. The x/net deviations from
// the spec that were found (by reading its source and by running this test)
// are listed at xnetDeviation below; inputs that hit one are skipped (and
// counted), everything else must agree exactly.
//
// Normalisations applied to both sides before comparing (not deviations, just
// API differences):
//   - adjacent text tokens are merged and the Mode is ignored (x/net splits
//     text differently and has no mode); empty text tokens are dropped
//   - U+0000 is mapped to U+FFFD everywhere (x/net leaves NUL handling in tag
//     names / attributes / data text to its parser)
//   - end tags: only the name is compared (x/net's tokenizer discards
//     attributes and the self-closing flag of end tags)
//   - duplicate attributes: x/net keeps them; htmltok keeps them flagged
//     Dropped - names and values are compared for all of them
//   - x/net reports the dropped "</>" as an empty comment whose Raw() is
//     "</>"; that pseudo-token is removed
//   - DOCTYPE: x/net's tokenizer returns the raw text after "<!DOCTYPE"; only
//     the name (first whitespace-delimited word, lower-cased) is compared, and
//     implicitly the position where the token ends
//   - noscript: x/net always treats it as raw text, so htmltok runs with
//     Scripting=true
//   - foreign mode: htmltok NoStateSwitch=true  ⇔  x/net AllowCDATA(true) plus
//     NextIsNotRawText() after every start tag
package xnetdiff

import (
	"bytes"
	"fmt"
	"math/rand"
	"os"
	"regexp"
	"strconv"
	"strings"
	"testing"

	"golang.org/x/net/html"
	"verif/oracle/htmltok"
)

type item struct {
	kind  string
	name  string
	attrs []string // "k=v"
	self  bool
	text  string
}

func (it item) String() string {
	switch it.kind {
	case "start":
		s := "<" + it.name
		for _, a := range it.attrs {
			s += fmt.Sprintf(" %q", a)
		}
		if it.self {
			s += " /"
		}
		return s + ">"
	case "end":
		return "</" + it.name + ">"
	default:
		return fmt.Sprintf("%s:%q", it.kind, it.text)
	}
}

func nul(s string) string { return strings.ReplaceAll(s, "\x00", "\uFFFD") }

func appendText(items []item, s string) []item {
	if s == "" {
		return items
	}
	if n := len(items); n > 0 && items[n-1].kind == "text" {
		items[n-1].text += s
		return items
	}
	return append(items, item{kind: "text", text: s})
}

func doctypeName(s string) string {
	s = strings.TrimLeft(s, " \t\n\f\r")
	if i := strings.IndexAny(s, " \t\n\f\r"); i >= 0 {
		s = s[:i]
	}
	return strings.ToLower(s)
}

func viaXNet(in []byte, foreign bool) []item {
	z := html.NewTokenizer(bytes.NewReader(in))
	if foreign {
		z.AllowCDATA(true)
	}
	var items []item
	for {
		tt := z.Next()
		switch tt {
		case html.ErrorToken:
			return items
		case html.TextToken:
			items = appendText(items, nul(string(z.Text())))
		case html.StartTagToken, html.SelfClosingTagToken:
			it := item{kind: "start", self: tt == html.SelfClosingTagToken}
			name, more := z.TagName()
			it.name = nul(string(name))
			for more {
				var k, v []byte
				k, v, more = z.TagAttr()
				it.attrs = append(it.attrs, nul(string(k))+"="+nul(string(v)))
			}
			items = append(items, it)
			if foreign {
				z.NextIsNotRawText()
			}
		case html.EndTagToken:
			name, _ := z.TagName()
			items = append(items, item{kind: "end", name: nul(string(name))})
		case html.CommentToken:
			if string(z.Raw()) == "</>" {
				continue
			}
			items = append(items, item{kind: "comment", text: nul(string(z.Text()))})
		case html.DoctypeToken:
			items = append(items, item{kind: "doctype", name: nul(doctypeName(string(z.Text())))})
		}
	}
}

// viaOracle tokenizes with htmltok and normalises. With emulate set, three
// x/net deviations that are cheap to reproduce exactly are applied to the
// oracle's output instead of causing the whole input to be skipped, so that
// the rest of such inputs is still compared:
//
//	D5: CDATA sections (AllowCDATA): x/net decodes character references in the
//	    section text; the spec does not.
//	D7: x/net decides "self-closing" by looking at the byte before '>', so
//	    <a b=c/> (unquoted value "c/", not self-closing per spec) is reported
//	    as self-closing.
//	D8: x/net decodes character references in comment data (its Text()
//	    unescapes everything that is not raw text); the spec does not.
//
// D5 and D8 are emulated by passing the oracle's data through x/net's own
// UnescapeString.
func viaOracle(in []byte, foreign, emulate bool) ([]item, htmltok.Result) {
	r := htmltok.Tokenize(in, htmltok.Options{Scripting: true, NoStateSwitch: foreign})
	var items []item
	for _, t := range r.Tokens {
		switch t.Kind {
		case htmltok.Text:
			s := nul(t.Data)
			if emulate && t.Mode == htmltok.ModeCDATA {
				s = html.UnescapeString(s) // D5
			}
			items = appendText(items, s)
		case htmltok.StartTag:
			it := item{kind: "start", name: nul(t.Name), self: t.SelfClosing}
			for _, a := range t.Attrs {
				it.attrs = append(it.attrs, nul(a.Name)+"="+nul(a.Value))
			}
			if n := len(t.Attrs); emulate && n > 0 {
				a := t.Attrs[n-1]
				if a.HasValue && a.Quote == 0 && a.ValueEnd == t.End-1 && strings.HasSuffix(a.RawValue, "/") {
					it.self = true // D7
				}
			}
			items = append(items, it)
		case htmltok.EndTag:
			items = append(items, item{kind: "end", name: nul(t.Name)})
		case htmltok.Comment:
			s := nul(t.Data)
			if emulate {
				s = html.UnescapeString(s) // D8
			}
			items = append(items, item{kind: "comment", text: s})
		case htmltok.Doctype:
			items = append(items, item{kind: "doctype", name: nul(t.Name)})
		}
	}
	return items, r
}

// ---- known x/net deviations ----------------------------------------------------

var (
	// D1: "&#x;" / "&#X;" (hex reference without digits but with a semicolon)
	// is decoded by x/net to U+FFFD; the spec leaves it as text
	// (absence-of-digits-in-numeric-character-reference).
	reHexNoDigits = regexp.MustCompile(`&#[xX];`)
	// D2: x/net needs at least four bytes "&#d?" in the remaining text /
	// attribute-value slice, so a numeric reference whose last digit is the
	// last byte of the slice ("&#5" directly before a tag, a quote or EOF)
	// is not decoded; the spec decodes it. Detected conservatively: any
	// one-digit decimal reference not followed by a digit or ';' .
	reShortNumeric = regexp.MustCompile(`&#[0-9]([^0-9;]|$)`)
	// D3: x/net accumulates the code point in an int32 which overflows for
	// long digit strings; the spec saturates (→ U+FFFD).
	reLongNumeric = regexp.MustCompile(`&#([0-9]{10,}|[xX][0-9a-fA-F]{8,})`)
	// D4: in the script data escaped less-than sign state x/net falls back to
	// the (unescaped) script data state for "anything else", the spec says
	// script data *escaped*. Detected conservatively: inside a script whose
	// text contains "<!--", a '<' followed by something that is neither '/'
	// nor an ASCII letter.
	reScriptEscLT = regexp.MustCompile(`(?is)<script.*<!--.*<([^/a-zA-Z]|$)`)
	// D6: EOF inside the "DOCTYPE" / "[CDATA[" keyword of a markup
	// declaration: x/net does not back up and returns an empty comment; the
	// spec produces a bogus comment with the partial keyword as data.
	rePartialDecl = regexp.MustCompile(`(?i)<!(d|do|doc|doct|docty|doctyp|\[|\[c|\[cd|\[cda|\[cdat|\[cdata)$`)
	// D9: "<!>" as the last three bytes of the input: x/net reads two bytes
	// after "<!" before looking at them, hits EOF on the second and returns a
	// comment with data ">"; the spec gives an empty comment.
	reBangGTEOF = regexp.MustCompile(`<!>$`)
)

// xnetDeviation returns a non-empty reason if the input exhibits a construct
// on which x/net is known to deviate from the spec (other than D5, D7 and D8,
// which are emulated, see viaOracle).
func xnetDeviation(in []byte, foreign bool) string {
	switch {
	case reHexNoDigits.Match(in):
		return "D1 &#x; decoded"
	case reShortNumeric.Match(in):
		return "D2 short numeric reference at end of slice"
	case reLongNumeric.Match(in):
		return "D3 numeric reference overflow"
	case !foreign && reScriptEscLT.Match(in):
		return "D4 script data escaped less-than sign fallback"
	case rePartialDecl.Match(in):
		return "D6 EOF in partial DOCTYPE/CDATA keyword"
	case reBangGTEOF.Match(in):
		return "D9 <!> at EOF"
	}
	return ""
}

// ---- generators ---------------------------------------------------------------------

type gen struct {
	rng     *rand.Rand
	foreign bool
	b       bytes.Buffer
}

func (g *gen) pick(ss ...string) string { return ss[g.rng.Intn(len(ss))] }
func (g *gen) chance(n int) bool        { return g.rng.Intn(n) == 0 }

var tagNames = []string{"a", "b", "p", "div", "br", "img", "svg", "math", "x-y", "a1",
	"title", "textarea", "style", "script", "xmp", "iframe", "noembed", "noframes", "noscript", "plaintext",
	"TITLE", "Script", "sCRIPT", "STYLE", "TextArea", "titles", "scrip", "scriptx"}

func (g *gen) ws() string { return g.pick(" ", " ", " ", "\n", "\t", "\f", "\r", "\r\n", "  ") }

func (g *gen) optWS() string {
	if g.chance(3) {
		return g.ws()
	}
	return ""
}

var namedRefs = []string{"amp", "lt", "gt", "quot", "apos", "nbsp", "not", "notin", "notit", "copy", "reg", "AMP", "LT",
	"Aacute", "frac12", "sup1", "hellip", "NotEqualTilde", "fjlig", "semi", "equals", "lpar", "foo", "a", "Amp", "ampamp",
	"CounterClockwiseContourIntegral", "para", "parallel", "cent", "centerdot", "times", "timesb", "ord", "ordf", "ordm", "order"}

func (g *gen) charRef() string {
	switch g.rng.Intn(10) {
	case 0, 1, 2, 3:
		s := "&" + g.pick(namedRefs...)
		switch g.rng.Intn(4) {
		case 0:
		case 1:
			s += g.pick("=", "x", "1", " ", "-", ";;", "&")
		default:
			s += ";"
		}
		return s
	case 4, 5:
		s := "&#" + g.pick("65", "0", "128", "150", "159", "129", "13", "10", "55296", "57343", "1114111", "1114112", "65534", "64976", "233", "8364", "999999999", "34", "60")
		if !g.chance(4) {
			s += ";"
		} else {
			s += g.pick("", "x", " ", "=", "a")
		}
		return s
	case 6, 7:
		s := "&#" + g.pick("x", "X") + g.pick("41", "0", "80", "9F", "9f", "81", "D", "d800", "DFFF", "10FFFF", "110000", "FFFE", "1F600", "e9", "7FFFFFF", "22", "3c", "00041")
		if !g.chance(4) {
			s += ";"
		} else {
			s += g.pick("", "g", " ", "=", "z")
		}
		return s
	case 8:
		return g.pick("&", "&#", "&#x", "&#;", "&#xg", "&;", "& ", "&&", "&#-1;", "&#x-1;", "&#X")
	default:
		return "&" + g.pick("am", "l", "no", "xyz", "9") + g.pick("", ";", "=")
	}
}

func (g *gen) textRun() string {
	var s string
	n := 1 + g.rng.Intn(4)
	for i := 0; i < n; i++ {
		switch g.rng.Intn(14) {
		case 0, 1, 2, 3:
			s += g.pick("a", "bc", "Hello", "x y", "é", "日本", "1", "script", "title")
		case 4:
			s += g.ws()
		case 5, 6:
			s += g.charRef()
		case 7:
			s += g.pick("<", "< ", "<1", "<>", "<=", "<<", "<\n", "<-")
		case 8:
			s += g.pick(">", "\"", "'", "=", "/", "`", "]", "]]>", "-", "--", "-->", "!", "?")
		case 9:
			s += g.pick("\x00", "\xff", "\xc3", "\xe2\x82")
		case 10:
			s += g.pick("</>", "</ >", "</1>")
		default:
			s += g.pick("a", "b", " ")
		}
	}
	return s
}

func (g *gen) attrName() string {
	return g.pick("a", "b", "href", "ID", "Class", "data-x", "on:click", "x.y", "b", "a", "=", "=a", "a\"", "a'b", "a<", "é", "\x00n", "A")
}

func (g *gen) attrValueBody(quote string) string {
	var s string
	n := g.rng.Intn(4)
	for i := 0; i < n; i++ {
		switch g.rng.Intn(8) {
		case 0, 1, 2:
			s += g.pick("v", "x1", "foo", "é", "?a=1", "b=2", "/", "a/b")
		case 3, 4:
			s += g.charRef()
		case 5:
			switch quote {
			case "\"":
				s += g.pick("'", ">", "<", " ", "\n", "\r\n", "=", "`", "/>")
			case "'":
				s += g.pick("\"", ">", "<", " ", "\r", "=", "`", "/>")
			default:
				s += g.pick("\"", "'", "<", "=", "`", "/")
			}
		case 6:
			s += g.pick("\x00", "\xff")
		default:
			s += "z"
		}
	}
	return s
}

func (g *gen) attr() string {
	s := g.attrName()
	switch g.rng.Intn(6) {
	case 0:
		return s
	case 1:
		return s + g.optWS() + "=" + g.optWS()
	case 2:
		return s + g.optWS() + "=" + g.optWS() + g.attrValueBody("")
	case 3:
		return s + g.optWS() + "=" + g.optWS() + "'" + g.attrValueBody("'") + "'"
	default:
		return s + g.optWS() + "=" + g.optWS() + "\"" + g.attrValueBody("\"") + "\""
	}
}

func (g *gen) tag(end bool) string {
	s := "<"
	if end {
		s += "/"
	}
	s += g.pick(tagNames...)
	n := g.rng.Intn(4)
	if end {
		n = g.rng.Intn(5) / 4
	}
	for i := 0; i < n; i++ {
		if g.chance(10) {
			s += g.pick("", "/") // missing whitespace / stray solidus
		} else {
			s += g.ws()
		}
		s += g.attr()
	}
	s += g.optWS()
	if g.chance(6) {
		s += g.pick("/", "/ ", "//")
	}
	return s + ">"
}

func (g *gen) commentBody() string {
	var s string
	n := g.rng.Intn(5)
	for i := 0; i < n; i++ {
		s += g.pick("a", " ", "-", "--", "!", "<", "<!", "<!-", "<!--", ">", "->", "--!", "x", "\n", "\r\n", "\x00", "&amp;", "</script>", "é", "<!---")
	}
	return s
}

func (g *gen) comment() string {
	switch g.rng.Intn(12) {
	case 0:
		return g.pick("<!-->", "<!--->", "<!---->", "<!----->", "<!--!>", "<!----!>", "<!--->-->")
	case 1:
		return "<!--" + g.commentBody() + "--!>"
	case 2:
		return "<?" + g.commentBody() + ">"
	case 3:
		return "<!" + g.pick("", "x", "-", "[", "[CDATA", "doc", "ELEMENT ", "]") + g.commentBody() + ">"
	case 4:
		return "</" + g.pick(" ", "1", "-", "?", "!", "=") + g.commentBody() + ">"
	default:
		return "<!--" + g.commentBody() + "-->"
	}
}

func (g *gen) doctype() string {
	s := "<!" + g.pick("DOCTYPE", "doctype", "DocType") + g.pick(" ", "", "\n", "  ") + g.pick("html", "HTML", "svg", "", "x\x00y")
	switch g.rng.Intn(5) {
	case 0:
		s += ` PUBLIC "-//W3C//DTD HTML 4.01//EN" "http://www.w3.org/TR/html4/strict.dtd"`
	case 1:
		s += ` SYSTEM 'about:legacy-compat'`
	case 2:
		s += " " + g.pick("foo", "public", "PUBLIC \"a>b\"", "SYSTEM x", "PUBLIC 'a' 'b' c", "system\"x\"")
	}
	return s + g.optWS() + ">"
}

func (g *gen) rawContent(name string) string {
	var s string
	n := g.rng.Intn(6)
	for i := 0; i < n; i++ {
		switch g.rng.Intn(12) {
		case 0, 1:
			s += g.pick("a", "x = 1;", " ", "\n", "é", "&amp;", "&lt", "\x00")
		case 2:
			s += "</" + g.pick(tagNames...) + g.pick(">", " >", "", "x>", "/>", "\t", " a=b>")
		case 3:
			s += "</" + name + g.pick("x", "-", "", "<", "&")
		case 4:
			s += g.pick("<!--", "<!-", "<!", "-->", "--", "-", "->", "--!>", ">")
		case 5:
			s += "<" + g.pick("script", "SCRIPT", "Script", "scrip", "scriptx", "b", "title") + g.pick(">", " ", "/", "", "\n", "-", "x>")
		case 6:
			s += "</" + g.pick("script", "SCRIPT", "scrip", "scriptx") + g.pick(">", " ", "/", "", "\r", "-")
		case 7:
			s += g.pick("<", "</", "< ", "<1")
		default:
			s += g.pick("a", "b", "c")
		}
	}
	return s
}

func (g *gen) cdata() string {
	var s string
	n := g.rng.Intn(5)
	for i := 0; i < n; i++ {
		s += g.pick("a", "]", "]]", "]>", ">", "<", "<b>", " ", "\r\n", "]] >", "é", "]]]")
	}
	return "<![CDATA[" + s + g.pick("]]>", "]]>", "]]>", "]]]>", "")
}

// document generates a structured document.
func (g *gen) document() []byte {
	g.b.Reset()
	n := 1 + g.rng.Intn(8)
	for i := 0; i < n; i++ {
		switch g.rng.Intn(12) {
		case 0, 1, 2:
			g.b.WriteString(g.textRun())
		case 3, 4, 5:
			g.b.WriteString(g.tag(false))
		case 6:
			g.b.WriteString(g.tag(true))
		case 7:
			g.b.WriteString(g.comment())
		case 8:
			g.b.WriteString(g.doctype())
		case 9, 10:
			// raw text element with adversarial content
			name := g.pick("title", "textarea", "style", "script", "script", "script", "xmp", "iframe", "noembed", "noframes", "noscript", "plaintext")
			g.b.WriteString("<" + name + g.pick(">", " a=b>", "/>", "\n>"))
			g.b.WriteString(g.rawContent(name))
			if !g.chance(8) {
				g.b.WriteString("</" + g.pick(name, strings.ToUpper(name)) + g.pick(">", " >", "\n>", "/>"))
			}
		default:
			if g.foreign {
				g.b.WriteString(g.cdata())
			} else {
				g.b.WriteString(g.charRef())
			}
		}
	}
	out := append([]byte(nil), g.b.Bytes()...)
	if g.chance(3) && len(out) > 0 {
		out = out[:g.rng.Intn(len(out)+1)] // EOF anywhere
	}
	return out
}

var soupAlphabet = []string{
	"<", ">", "/", "!", "-", "--", "=", "\"", "'", "&", ";", "#", "x", " ", "\n", "\r", "\t", "\f", "\x00", "?", "]", "[",
	"a", "b", "script", "SCRIPT", "title", "textarea", "style", "plaintext", "noscript", "xmp", "iframe",
	"<!--", "-->", "--!>", "<script>", "</script>", "<title>", "</title>", "<style>", "</style>", "<![CDATA[", "]]>",
	"<!DOCTYPE", "doctype", "PUBLIC", "SYSTEM", "html", "&amp", "&lt", "&not", "&notin;", "&#", "&#x", "41", "0", "D800",
	"\xff", "\xc3\xa9", "\xe2\x82", "`", "href", "id=", "<a ", "<b", "</a", "</", "<!", "<?",
}

// soup generates unstructured markup.
func (g *gen) soup() []byte {
	g.b.Reset()
	n := g.rng.Intn(25)
	for i := 0; i < n; i++ {
		g.b.WriteString(soupAlphabet[g.rng.Intn(len(soupAlphabet))])
	}
	return append([]byte(nil), g.b.Bytes()...)
}

// ---- the test -------------------------------------------------------------------------------

func equalItems(a, b []item) bool {
	if len(a) != len(b) {
		return false
	}
	for i := range a {
		if a[i].String() != b[i].String() {
			return false
		}
	}
	return true
}

func compare(t *testing.T, in []byte, foreign bool, skipped map[string]int) (compared bool) {
	t.Helper()
	mine, r := viaOracle(in, foreign, true)
	theirs := viaXNet(in, foreign)
	if equalItems(mine, theirs) {
		return true
	}
	if why := xnetDeviation(htmltok.Preprocess(in), foreign); why != "" {
		skipped[why]++
		return false
	}
	t.Errorf("MISMATCH foreign=%v input %q\n htmltok: %v\n   x/net: %v\n  errors: %v final=%+v", foreign, in, mine, theirs, r.Errors, r.Final)
	return true
}

func TestDifferential(t *testing.T) {
	n := 300000
	if testing.Short() {
		n = 30000
	}
	seed := int64(20261002)
	// XNETDIFF_N / XNETDIFF_SEED allow longer one-off runs.
	if v, err := strconv.Atoi(os.Getenv("XNETDIFF_N")); err == nil && v > 0 {
		n = v
	}
	if v, err := strconv.ParseInt(os.Getenv("XNETDIFF_SEED"), 10, 64); err == nil {
		seed = v
	}
	for _, foreign := range []bool{false, true} {
		for _, mode := range []string{"document", "soup"} {
			name := fmt.Sprintf("%s/foreign=%v", mode, foreign)
			t.Run(name, func(t *testing.T) {
				g := &gen{rng: rand.New(rand.NewSource(seed)), foreign: foreign}
				skipped := map[string]int{}
				compared := 0
				for i := 0; i < n; i++ {
					var in []byte
					if mode == "document" {
						in = g.document()
					} else {
						in = g.soup()
					}
					if compare(t, in, foreign, skipped) {
						compared++
					}
					if t.Failed() {
						t.FailNow()
					}
				}
				t.Logf("%d inputs agreed; disagreements excused by known x/net deviations: %v", compared, skipped)
			})
		}
	}
}

// TestKnownDeviations pins each documented x/net deviation with a minimal
// example: the oracle must give the spec answer, x/net must (still) differ.
// If x/net ever gets fixed this test says so and the exclusion can go.
func TestKnownDeviations(t *testing.T) {
	cases := []struct {
		why     string
		in      string
		foreign bool
		want    string // oracle's normalised stream
	}{
		{"D1", "&#x;", false, `[text:"&#x;"]`},
		{"D2", "&#9<b>", false, `[text:"\t" <b>]`},
		{"D3", "&#x100000041;", false, "[text:\"\uFFFD\"]"},
		{"D4", "<script><!-- < <script></script>x</script>y", false, `[<script> text:"<!-- < <script></script>x" </script> text:"y"]`},
		{"D5", "<![CDATA[&amp;]]>", true, `[text:"&amp;"]`},
		{"D6", "<!DOCT", false, `[comment:"DOCT"]`},
		{"D7", "<a b=c/>", false, `[<a "b=c/">]`},
		{"D8", "<!--&amp;-->", false, `[comment:"&amp;"]`},
		{"D9", "<!>", false, `[comment:""]`},
	}
	for _, c := range cases {
		mine, _ := viaOracle([]byte(c.in), c.foreign, false)
		theirs := viaXNet([]byte(c.in), c.foreign)
		if got := fmt.Sprint(mine); got != c.want {
			t.Errorf("%s %q: oracle gives %s, want %s", c.why, c.in, got, c.want)
		}
		if equalItems(mine, theirs) {
			t.Errorf("%s %q: x/net now agrees with the spec (%v); drop the exclusion", c.why, c.in, theirs)
		}
		switch c.why {
		case "D5", "D7", "D8":
			if emulated, _ := viaOracle([]byte(c.in), c.foreign, true); !equalItems(emulated, theirs) {
				t.Errorf("%s %q: emulation gives %v, x/net %v", c.why, c.in, emulated, theirs)
			}
		default:
			if why := xnetDeviation(htmltok.Preprocess([]byte(c.in)), c.foreign); !strings.HasPrefix(why, c.why) {
				t.Errorf("%s %q: classified as %q", c.why, c.in, why)
			}
		}
	}
}
