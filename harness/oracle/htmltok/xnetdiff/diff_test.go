package xnetdiff

import (
	"testing"

	"golang.org/x/net/html"
	"verif/oracle/htmltok"
)

func TestSmoke(t *testing.T) {
	_ = html.NewTokenizer
	_ = htmltok.Tokenize
}
