package htmltok

import (
	"html"
	"unicode/utf8"
)

// Character references (§13.2.5.72–80).
//
// The spec's character-reference states are implemented as one look-ahead
// function. This is equivalent to the state machine because, once '&' has
// been consumed, every path through those states either
//
//   - produces a replacement and resumes the return state after the
//     reference, or
//   - "flushes the code points consumed as a character reference" (i.e. puts
//     the raw input back) and resumes the return state; for the ambiguous
//     ampersand state the ASCII alphanumerics it would pass through are
//     treated identically ("anything else": append / emit) by each of the five
//     possible return states, so only the '&' is flushed here and the
//     alphanumerics are left to the return state. The one observable effect of
//     the ambiguous ampersand state, the unknown-named-character-reference
//     parse error, is reproduced by scanning ahead.

// maxEntityRun bounds the number of alphanumerics considered for a named
// reference. The longest name in the table is
// "CounterClockwiseContourIntegral" (31 characters without the semicolon).
const maxEntityRun = 32

// legacyNames are the 106 named character references that the table also
// lists without a trailing semicolon.
var legacyNames = []string{
	"AElig", "AMP", "Aacute", "Acirc", "Agrave", "Aring", "Atilde", "Auml",
	"COPY", "Ccedil", "ETH", "Eacute", "Ecirc", "Egrave", "Euml", "GT",
	"Iacute", "Icirc", "Igrave", "Iuml", "LT", "Ntilde", "Oacute", "Ocirc",
	"Ograve", "Oslash", "Otilde", "Ouml", "QUOT", "REG", "THORN", "Uacute",
	"Ucirc", "Ugrave", "Uuml", "Yacute", "aacute", "acirc", "acute", "aelig",
	"agrave", "amp", "aring", "atilde", "auml", "brvbar", "ccedil", "cedil",
	"cent", "copy", "curren", "deg", "divide", "eacute", "ecirc", "egrave",
	"eth", "euml", "frac12", "frac14", "frac34", "gt", "iacute", "icirc",
	"iexcl", "igrave", "iquest", "iuml", "laquo", "lt", "macr", "micro",
	"middot", "nbsp", "not", "ntilde", "oacute", "ocirc", "ograve", "ordf",
	"ordm", "oslash", "otilde", "ouml", "para", "plusmn", "pound", "quot",
	"raquo", "reg", "sect", "shy", "sup1", "sup2", "sup3", "szlig", "thorn",
	"times", "uacute", "ucirc", "ugrave", "uml", "uuml", "yacute", "yen",
	"yuml",
}

const maxLegacyLen = 6

// legacy maps a legacy name (no semicolon) to its replacement.
var legacy = func() map[string]string {
	m := make(map[string]string, len(legacyNames))
	for _, n := range legacyNames {
		v, ok := lookupSemi(n)
		if !ok {
			panic("htmltok: legacy entity " + n + " unknown to package html")
		}
		m[n] = v
	}
	return m
}()

// lookupSemi reports whether name+";" is in the named character reference
// table, and its replacement. name must consist of ASCII alphanumerics.
//
// It probes the standard library's table: html.UnescapeString("&"+name+";").
// UnescapeString returns
//   - the input unchanged if neither name+";" nor any legacy prefix of name is
//     in the table;
//   - one or two code points if name+";" is in the table;
//   - otherwise (a proper prefix of name is a legacy name) one code point
//     followed by the non-empty rest of name and the ";", i.e. at least three
//     code points.
//
// (If name itself is a legacy name then name+";" is in the table too, so the
// third case always has a non-empty rest.)
func lookupSemi(name string) (string, bool) {
	in := "&" + name + ";"
	out := html.UnescapeString(in)
	if out == in || utf8.RuneCountInString(out) > 2 {
		return "", false
	}
	return out, true
}

var c1Remap = map[uint32]rune{
	0x80: 0x20AC, 0x82: 0x201A, 0x83: 0x0192, 0x84: 0x201E, 0x85: 0x2026,
	0x86: 0x2020, 0x87: 0x2021, 0x88: 0x02C6, 0x89: 0x2030, 0x8A: 0x0160,
	0x8B: 0x2039, 0x8C: 0x0152, 0x8E: 0x017D, 0x91: 0x2018, 0x92: 0x2019,
	0x93: 0x201C, 0x94: 0x201D, 0x95: 0x2022, 0x96: 0x2013, 0x97: 0x2014,
	0x98: 0x02DC, 0x99: 0x2122, 0x9A: 0x0161, 0x9B: 0x203A, 0x9C: 0x0153,
	0x9E: 0x017E, 0x9F: 0x0178,
}

func (t *tokenizer) at(p int) int {
	if p < len(t.in) {
		return int(t.in[p])
	}
	return eofChar
}

// charRef is called right after a '&' has been consumed (t.pos is the offset
// after it). It returns the bytes to emit / append in place of the consumed
// input and advances t.pos past whatever the character-reference states
// consume.
func (t *tokenizer) charRef(inAttr bool) []byte {
	amp := t.pos - 1
	c := t.at(t.pos)
	switch {
	case isAlnum(c):
		return t.namedCharRef(inAttr)
	case c == '#':
		return t.numericCharRef()
	}
	// Anything else: flush "&", reconsume in the return state.
	return t.in[amp:t.pos]
}

func (t *tokenizer) namedCharRef(inAttr bool) []byte {
	amp := t.pos - 1
	start := t.pos
	i := start
	for i < len(t.in) && isAlnum(int(t.in[i])) && i-start < maxEntityRun {
		i++
	}
	run := t.in[start:i]

	// Longest candidate first: the whole alphanumeric run followed by ';'.
	if t.at(i) == ';' {
		if v, ok := lookupSemi(string(run)); ok {
			t.pos = i + 1
			return []byte(v)
		}
	}
	// Then the legacy (semicolon-less) names, longest prefix first.
	n := len(run)
	if n > maxLegacyLen {
		n = maxLegacyLen
	}
	for j := n; j >= 2; j-- {
		v, ok := legacy[string(run[:j])]
		if !ok {
			continue
		}
		next := start + j
		if nc := t.at(next); inAttr && (nc == '=' || isAlnum(nc)) {
			// Historical reasons: leave the reference as text.
			t.pos = next
			return t.in[amp:next]
		}
		t.err("missing-semicolon-after-character-reference")
		t.pos = next
		return []byte(v)
	}
	// No match: flush "&" and switch to the ambiguous ampersand state, which
	// passes the alphanumerics through and complains if a ';' follows them.
	k := start
	for k < len(t.in) && isAlnum(int(t.in[k])) {
		k++
	}
	if t.at(k) == ';' {
		t.err("unknown-named-character-reference")
	}
	return t.in[amp:start]
}

func (t *tokenizer) numericCharRef() []byte {
	amp := t.pos - 1
	p := t.pos + 1 // after '#'
	hex := false
	if c := t.at(p); c == 'x' || c == 'X' {
		hex = true
		p++
	}
	digits := p
	var code uint32
	for {
		c := t.at(p)
		var d uint32
		switch {
		case isDigit(c):
			d = uint32(c - '0')
		case hex && c >= 'a' && c <= 'f':
			d = uint32(c-'a') + 10
		case hex && c >= 'A' && c <= 'F':
			d = uint32(c-'A') + 10
		default:
			goto doneDigits
		}
		if hex {
			code = code*16 + d
		} else {
			code = code*10 + d
		}
		if code > 0x10FFFF {
			code = 0x110000 // saturate; still "greater than 0x10FFFF"
		}
		p++
	}
doneDigits:
	if p == digits {
		// (Hexa)decimal character reference start state, no digits.
		t.err("absence-of-digits-in-numeric-character-reference")
		t.pos = digits
		return t.in[amp:digits] // "&#" or "&#x"
	}
	if t.at(p) == ';' {
		p++
	} else {
		t.err("missing-semicolon-after-character-reference")
	}
	t.pos = p

	// Numeric character reference end state.
	switch {
	case code == 0:
		t.err("null-character-reference")
		code = 0xFFFD
	case code > 0x10FFFF:
		t.err("character-reference-outside-unicode-range")
		code = 0xFFFD
	case code >= 0xD800 && code <= 0xDFFF:
		t.err("surrogate-character-reference")
		code = 0xFFFD
	case code >= 0xFDD0 && code <= 0xFDEF, code&0xFFFE == 0xFFFE:
		t.err("noncharacter-character-reference")
	case code == 0x0D, isControl(code) && !isASCIIWhitespace(code):
		t.err("control-character-reference")
		if r, ok := c1Remap[code]; ok {
			code = uint32(r)
		}
	}
	var buf [4]byte
	n := utf8.EncodeRune(buf[:], rune(code))
	return append([]byte(nil), buf[:n]...)
}

// isControl: a control is a C0 control (U+0000–U+001F) or a code point in the
// range U+007F–U+009F.
func isControl(c uint32) bool { return c <= 0x1F || (c >= 0x7F && c <= 0x9F) }

// isASCIIWhitespace: TAB, LF, FF, CR, SPACE.
func isASCIIWhitespace(c uint32) bool {
	return c == 0x09 || c == 0x0A || c == 0x0C || c == 0x0D || c == 0x20
}
