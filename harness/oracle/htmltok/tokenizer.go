// Package htmltok is a small, self-contained, spec-faithful implementation of
// the WHATWG HTML tokenizer (HTML Standard §13.2.5 "Tokenization") together
// with the newline normalisation of §13.2.3.5 "Preprocessing the input
// stream". It exists to serve as an independent test oracle: correctness with
// respect to the specification is the only goal, speed is not.
//
// The implementation is a direct transcription of the spec's state machine:
// one Go case per tokenizer state, using the spec's state names. The only
// states that are not materialised are the character-reference states
// (§13.2.5.72–80), which are implemented as a look-ahead function (charRef)
// called from the three attribute-value states, Data and RCDATA; while inside
// a character reference the tokenizer therefore reports the *return state*.
//
// The input is treated as a byte string. Every character that is significant
// to the tokenizer is ASCII, so multi-byte UTF-8 sequences and invalid UTF-8
// bytes are passed through verbatim as opaque "anything else" bytes.
//
// Tree-construction feedback: the only part of the tree builder that is
// modelled is the tokenizer state switch that follows certain start tags
// (title/textarea → RCDATA, style/xmp/iframe/noembed/noframes → RAWTEXT,
// noscript → RAWTEXT when scripting, script → script data, plaintext →
// PLAINTEXT). The switch is applied for every such start tag irrespective of
// the insertion mode the real tree builder would be in (so e.g. <title>
// inside <select>, where the tree builder ignores the token, still switches
// here), and irrespective of a trailing "/" (which the tree builder ignores
// for HTML elements). Foreign content is modelled wholesale by
// Options.NoStateSwitch.
//
// Named character references use the table of the standard library's "html"
// package (the full 2231-entry WHATWG table) by probing
// html.UnescapeString("&"+name+";") for the candidate name met in the input;
// see lookupSemi. The 106 legacy names that may be written without a
// trailing semicolon are embedded (legacyNames) and are cross-checked against
// the standard library in the tests.
//
// Known simplifications (all are parse-error-reporting only, none affects the
// token stream):
//   - the input-stream preprocessing errors surrogate-in-input-stream,
//     noncharacter-in-input-stream and control-character-in-input-stream are
//     not reported;
//   - the tree-construction error non-void-html-element-start-tag-with-
//     trailing-solidus is not reported.
package htmltok

import (
	"fmt"
	"strings"
)

// Kind is the kind of a Token.
type Kind int

const (
	StartTag Kind = iota
	EndTag
	Text
	Comment
	Doctype
)

func (k Kind) String() string {
	switch k {
	case StartTag:
		return "StartTag"
	case EndTag:
		return "EndTag"
	case Text:
		return "Text"
	case Comment:
		return "Comment"
	case Doctype:
		return "Doctype"
	}
	return fmt.Sprintf("Kind(%d)", int(k))
}

// Mode of a Text token: which tokenizer content model the characters were
// emitted in.
type Mode int

const (
	ModeData Mode = iota
	ModeRCDATA
	ModeRAWTEXT
	ModeScriptData
	ModePLAINTEXT
	ModeCDATA
)

func (m Mode) String() string {
	switch m {
	case ModeData:
		return "data"
	case ModeRCDATA:
		return "rcdata"
	case ModeRAWTEXT:
		return "rawtext"
	case ModeScriptData:
		return "script"
	case ModePLAINTEXT:
		return "plaintext"
	case ModeCDATA:
		return "cdata"
	}
	return fmt.Sprintf("Mode(%d)", int(m))
}

// Attr is one attribute of a tag token.
type Attr struct {
	Name     string // as tokenized: ASCII-lowercased, NUL→U+FFFD
	Value    string // after character-reference decoding (attribute rules), NUL→U+FFFD
	RawValue string // raw input bytes of the value (between the quotes for quoted values), after newline normalisation, before charref decoding
	Quote    byte   // '"', '\'' or 0 for unquoted / no value
	HasValue bool   // true iff one of the three attribute-value states was entered; false for `<a href>` and for `<a href=>`
	Dropped  bool   // duplicate attribute name (the spec drops it; it is kept here, flagged)

	// Extras (not in the minimal API).
	Start, End           int // byte offsets in the preprocessed input: first byte of the name .. one past the value (including a closing quote)
	ValueStart, ValueEnd int // byte offsets of RawValue (both 0 when !HasValue)
}

// Token is one emitted token.
type Token struct {
	Kind        Kind
	Name        string // tag name (lowercased) or doctype name
	Attrs       []Attr // source order; duplicates kept with Dropped=true; end tags may carry attrs too
	SelfClosing bool
	Data        string // Text: the characters; Comment: the comment data
	Mode        Mode   // Text only
	Start, End  int    // byte offsets into the preprocessed input covering the token's source

	// Doctype extras.
	PublicID, SystemID       string
	HasPublicID, HasSystemID bool
	ForceQuirks              bool
}

// Options controls the tree-construction feedback.
type Options struct {
	Scripting     bool // <noscript> is RAWTEXT when true, ordinary when false
	NoStateSwitch bool // never leave the Data content model after a start tag (foreign content); CDATA sections are recognised
	// Foreign tracks open svg and math elements: while one is open, start tags do not switch the content model
	// (an HTML parser does not switch the tokenizer for script, style, title, textarea ... in foreign content).
	// The element counts as open from its start tag to its end tag or to a start tag that breaks out of foreign
	// content (HTML standard 13.2.6.5: b, br, div, img, p, span, table ...). Integration points (foreignObject,
	// annotation-xml, desc, title) are not modelled.
	Foreign bool

	// InitialElement, if non-empty, starts the tokenizer as if a start tag
	// with this (lower-case) name had just been emitted: the "last start tag"
	// is set and the corresponding state switch applied (unless
	// NoStateSwitch). This corresponds to the HTML fragment parsing
	// algorithm's context element. Extra, not in the minimal API.
	InitialElement string
}

// Final describes the tokenizer at end of input, before EOF handling.
type Final struct {
	State   string // spec state name, CamelCase, without "state"; for character references the return state
	Element string // RCDATA/RAWTEXT/ScriptData*/PLAINTEXT families: the last start tag name
	InTag   string // TagName … SelfClosingStartTag: the tag name so far
	InAttr  string // AttributeName, AfterAttributeName, BeforeAttributeValue, AttributeValue*: the attribute name so far
	EndTag  bool   // extra: InTag refers to an end tag
}

// Result is the outcome of Tokenize.
type Result struct {
	Tokens []Token
	Final  Final
	Errors []string // spec parse-error codes in order of occurrence
	Input  []byte   // extra: the preprocessed input that all offsets refer to
}

// Preprocess performs the newline normalisation of §13.2.3.5: CRLF→LF and
// then every remaining CR→LF. The result is always a fresh slice.
func Preprocess(input []byte) []byte {
	out := make([]byte, 0, len(input))
	for i := 0; i < len(input); i++ {
		c := input[i]
		if c == '\r' {
			if i+1 < len(input) && input[i+1] == '\n' {
				continue // drop the CR of CRLF
			}
			c = '\n'
		}
		out = append(out, c)
	}
	return out
}

// Tokenize tokenizes input according to the WHATWG HTML tokenizer.
func Tokenize(input []byte, opt Options) Result {
	t := &tokenizer{in: Preprocess(input), opt: opt}
	t.res.Input = t.in
	if opt.InitialElement != "" {
		t.lastStartTag = opt.InitialElement
		t.hasLastStartTag = true
		if !opt.NoStateSwitch {
			t.st = t.contentStateFor(opt.InitialElement)
		}
	}
	for !t.done {
		t.step()
	}
	return t.res
}

type state int

const (
	sData state = iota
	sRCDATA
	sRAWTEXT
	sScriptData
	sPLAINTEXT
	sTagOpen
	sEndTagOpen
	sTagName
	sRCDATALessThanSign
	sRCDATAEndTagOpen
	sRCDATAEndTagName
	sRAWTEXTLessThanSign
	sRAWTEXTEndTagOpen
	sRAWTEXTEndTagName
	sScriptDataLessThanSign
	sScriptDataEndTagOpen
	sScriptDataEndTagName
	sScriptDataEscapeStart
	sScriptDataEscapeStartDash
	sScriptDataEscaped
	sScriptDataEscapedDash
	sScriptDataEscapedDashDash
	sScriptDataEscapedLessThanSign
	sScriptDataEscapedEndTagOpen
	sScriptDataEscapedEndTagName
	sScriptDataDoubleEscapeStart
	sScriptDataDoubleEscaped
	sScriptDataDoubleEscapedDash
	sScriptDataDoubleEscapedDashDash
	sScriptDataDoubleEscapedLessThanSign
	sScriptDataDoubleEscapeEnd
	sBeforeAttributeName
	sAttributeName
	sAfterAttributeName
	sBeforeAttributeValue
	sAttributeValueDoubleQuoted
	sAttributeValueSingleQuoted
	sAttributeValueUnquoted
	sAfterAttributeValueQuoted
	sSelfClosingStartTag
	sBogusComment
	sMarkupDeclarationOpen
	sCommentStart
	sCommentStartDash
	sComment
	sCommentLessThanSign
	sCommentLessThanSignBang
	sCommentLessThanSignBangDash
	sCommentLessThanSignBangDashDash
	sCommentEndDash
	sCommentEnd
	sCommentEndBang
	sDOCTYPE
	sBeforeDOCTYPEName
	sDOCTYPEName
	sAfterDOCTYPEName
	sAfterDOCTYPEPublicKeyword
	sBeforeDOCTYPEPublicIdentifier
	sDOCTYPEPublicIdentifierDoubleQuoted
	sDOCTYPEPublicIdentifierSingleQuoted
	sAfterDOCTYPEPublicIdentifier
	sBetweenDOCTYPEPublicAndSystemIdentifiers
	sAfterDOCTYPESystemKeyword
	sBeforeDOCTYPESystemIdentifier
	sDOCTYPESystemIdentifierDoubleQuoted
	sDOCTYPESystemIdentifierSingleQuoted
	sAfterDOCTYPESystemIdentifier
	sBogusDOCTYPE
	sCDATASection
	sCDATASectionBracket
	sCDATASectionEnd
	numStates
)

var stateNames = [numStates]string{
	sData:                                     "Data",
	sRCDATA:                                   "RCDATA",
	sRAWTEXT:                                  "RAWTEXT",
	sScriptData:                               "ScriptData",
	sPLAINTEXT:                                "PLAINTEXT",
	sTagOpen:                                  "TagOpen",
	sEndTagOpen:                               "EndTagOpen",
	sTagName:                                  "TagName",
	sRCDATALessThanSign:                       "RCDATALessThanSign",
	sRCDATAEndTagOpen:                         "RCDATAEndTagOpen",
	sRCDATAEndTagName:                         "RCDATAEndTagName",
	sRAWTEXTLessThanSign:                      "RAWTEXTLessThanSign",
	sRAWTEXTEndTagOpen:                        "RAWTEXTEndTagOpen",
	sRAWTEXTEndTagName:                        "RAWTEXTEndTagName",
	sScriptDataLessThanSign:                   "ScriptDataLessThanSign",
	sScriptDataEndTagOpen:                     "ScriptDataEndTagOpen",
	sScriptDataEndTagName:                     "ScriptDataEndTagName",
	sScriptDataEscapeStart:                    "ScriptDataEscapeStart",
	sScriptDataEscapeStartDash:                "ScriptDataEscapeStartDash",
	sScriptDataEscaped:                        "ScriptDataEscaped",
	sScriptDataEscapedDash:                    "ScriptDataEscapedDash",
	sScriptDataEscapedDashDash:                "ScriptDataEscapedDashDash",
	sScriptDataEscapedLessThanSign:            "ScriptDataEscapedLessThanSign",
	sScriptDataEscapedEndTagOpen:              "ScriptDataEscapedEndTagOpen",
	sScriptDataEscapedEndTagName:              "ScriptDataEscapedEndTagName",
	sScriptDataDoubleEscapeStart:              "ScriptDataDoubleEscapeStart",
	sScriptDataDoubleEscaped:                  "ScriptDataDoubleEscaped",
	sScriptDataDoubleEscapedDash:              "ScriptDataDoubleEscapedDash",
	sScriptDataDoubleEscapedDashDash:          "ScriptDataDoubleEscapedDashDash",
	sScriptDataDoubleEscapedLessThanSign:      "ScriptDataDoubleEscapedLessThanSign",
	sScriptDataDoubleEscapeEnd:                "ScriptDataDoubleEscapeEnd",
	sBeforeAttributeName:                      "BeforeAttributeName",
	sAttributeName:                            "AttributeName",
	sAfterAttributeName:                       "AfterAttributeName",
	sBeforeAttributeValue:                     "BeforeAttributeValue",
	sAttributeValueDoubleQuoted:               "AttributeValueDoubleQuoted",
	sAttributeValueSingleQuoted:               "AttributeValueSingleQuoted",
	sAttributeValueUnquoted:                   "AttributeValueUnquoted",
	sAfterAttributeValueQuoted:                "AfterAttributeValueQuoted",
	sSelfClosingStartTag:                      "SelfClosingStartTag",
	sBogusComment:                             "BogusComment",
	sMarkupDeclarationOpen:                    "MarkupDeclarationOpen",
	sCommentStart:                             "CommentStart",
	sCommentStartDash:                         "CommentStartDash",
	sComment:                                  "Comment",
	sCommentLessThanSign:                      "CommentLessThanSign",
	sCommentLessThanSignBang:                  "CommentLessThanSignBang",
	sCommentLessThanSignBangDash:              "CommentLessThanSignBangDash",
	sCommentLessThanSignBangDashDash:          "CommentLessThanSignBangDashDash",
	sCommentEndDash:                           "CommentEndDash",
	sCommentEnd:                               "CommentEnd",
	sCommentEndBang:                           "CommentEndBang",
	sDOCTYPE:                                  "DOCTYPE",
	sBeforeDOCTYPEName:                        "BeforeDOCTYPEName",
	sDOCTYPEName:                              "DOCTYPEName",
	sAfterDOCTYPEName:                         "AfterDOCTYPEName",
	sAfterDOCTYPEPublicKeyword:                "AfterDOCTYPEPublicKeyword",
	sBeforeDOCTYPEPublicIdentifier:            "BeforeDOCTYPEPublicIdentifier",
	sDOCTYPEPublicIdentifierDoubleQuoted:      "DOCTYPEPublicIdentifierDoubleQuoted",
	sDOCTYPEPublicIdentifierSingleQuoted:      "DOCTYPEPublicIdentifierSingleQuoted",
	sAfterDOCTYPEPublicIdentifier:             "AfterDOCTYPEPublicIdentifier",
	sBetweenDOCTYPEPublicAndSystemIdentifiers: "BetweenDOCTYPEPublicAndSystemIdentifiers",
	sAfterDOCTYPESystemKeyword:                "AfterDOCTYPESystemKeyword",
	sBeforeDOCTYPESystemIdentifier:            "BeforeDOCTYPESystemIdentifier",
	sDOCTYPESystemIdentifierDoubleQuoted:      "DOCTYPESystemIdentifierDoubleQuoted",
	sDOCTYPESystemIdentifierSingleQuoted:      "DOCTYPESystemIdentifierSingleQuoted",
	sAfterDOCTYPESystemIdentifier:             "AfterDOCTYPESystemIdentifier",
	sBogusDOCTYPE:                             "BogusDOCTYPE",
	sCDATASection:                             "CDATASection",
	sCDATASectionBracket:                      "CDATASectionBracket",
	sCDATASectionEnd:                          "CDATASectionEnd",
}

const eofChar = -1

const replacement = "\uFFFD"

type tokenizer struct {
	in   []byte
	pos  int // index of the next input character; may exceed len(in) by one after EOF was "consumed"
	st   state
	opt  Options
	res  Result
	done bool

	finalSet bool

	// pending (coalescing) text token
	haveText  bool
	text      []byte
	textMode  Mode
	textStart int
	textEnd   int

	ltPos int    // offset of the '<' that opened the construct being tokenized
	temp  []byte // the spec's temporary buffer

	// current tag token
	tagKind     Kind
	tagName     []byte
	attrs       []Attr
	selfClosing bool

	// current attribute
	haveAttr bool
	cur      Attr
	curName  []byte
	curVal   []byte

	lastStartTag    string
	hasLastStartTag bool
	foreignDepth    int

	// current comment token
	comment []byte

	// current DOCTYPE token
	dtName, dtPublic, dtSystem []byte
	dtHasPublic, dtHasSystem   bool
	dtQuirks                   bool
}

func isWS(c int) bool    { return c == '\t' || c == '\n' || c == '\f' || c == ' ' }
func isUpper(c int) bool { return c >= 'A' && c <= 'Z' }
func isLower(c int) bool { return c >= 'a' && c <= 'z' }
func isAlpha(c int) bool { return isUpper(c) || isLower(c) }
func isDigit(c int) bool { return c >= '0' && c <= '9' }
func isAlnum(c int) bool { return isAlpha(c) || isDigit(c) }

func (t *tokenizer) err(code string) { t.res.Errors = append(t.res.Errors, code) }

// reconsume: "reconsume in the X state".
func (t *tokenizer) reconsume(s state) {
	t.pos--
	t.st = s
}

func (t *tokenizer) clamp(p int) int {
	if p > len(t.in) {
		return len(t.in)
	}
	return p
}

// ---- text emission -------------------------------------------------------

func (t *tokenizer) emitBytes(m Mode, b []byte, s, e int) {
	if t.haveText && t.textMode != m {
		t.flushText()
	}
	if !t.haveText {
		t.haveText = true
		t.textMode = m
		t.textStart = s
		t.text = t.text[:0]
	}
	t.text = append(t.text, b...)
	t.textEnd = e
}

// emitCur emits the current input character (the one just consumed).
func (t *tokenizer) emitCur(m Mode) { t.emitBytes(m, t.in[t.pos-1:t.pos], t.pos-1, t.pos) }

// emitFFFD emits U+FFFD in place of the current input character.
func (t *tokenizer) emitFFFD(m Mode) { t.emitBytes(m, []byte(replacement), t.pos-1, t.pos) }

// emitRaw emits the input characters in[s:e] unchanged.
func (t *tokenizer) emitRaw(m Mode, s, e int) {
	s, e = t.clamp(s), t.clamp(e)
	t.emitBytes(m, t.in[s:e], s, e)
}

func (t *tokenizer) flushText() {
	if !t.haveText {
		return
	}
	t.haveText = false
	t.res.Tokens = append(t.res.Tokens, Token{
		Kind: Text, Data: string(t.text), Mode: t.textMode,
		Start: t.textStart, End: t.textEnd,
	})
}

// finish: "emit an end-of-file token".
func (t *tokenizer) finish() {
	t.flushText()
	t.done = true
}

// ---- tags ----------------------------------------------------------------

func (t *tokenizer) newTag(k Kind) {
	t.tagKind = k
	t.tagName = t.tagName[:0]
	t.attrs = nil
	t.selfClosing = false
	t.haveAttr = false
}

func (t *tokenizer) commitAttr() {
	if !t.haveAttr {
		return
	}
	t.haveAttr = false
	a := t.cur
	a.Name = string(t.curName)
	a.Value = string(t.curVal)
	if a.HasValue {
		a.RawValue = string(t.in[a.ValueStart:a.ValueEnd])
	}
	t.attrs = append(t.attrs, a)
}

// newAttr: "start a new attribute in the current tag token". The first
// character of the name is at offset start.
func (t *tokenizer) newAttr(start int) {
	t.commitAttr()
	t.haveAttr = true
	t.cur = Attr{Start: start, End: start}
	t.curName = t.curName[:0]
	t.curVal = t.curVal[:0]
}

// leaveAttrName implements the duplicate check the spec prescribes "when the
// user agent leaves the attribute name state". end is one past the last byte
// of the name.
func (t *tokenizer) leaveAttrName(end int) {
	t.cur.End = end
	for i := range t.attrs {
		if t.attrs[i].Name == string(t.curName) {
			t.err("duplicate-attribute")
			t.cur.Dropped = true
			break
		}
	}
}

func (t *tokenizer) startValue(q byte, start int) {
	t.cur.HasValue = true
	t.cur.Quote = q
	t.cur.ValueStart = start
	t.cur.ValueEnd = start
	t.cur.End = start
}

// endValue records that the raw value ends at offset end and the attribute's
// source at offset attrEnd.
func (t *tokenizer) endValue(end, attrEnd int) {
	t.cur.ValueEnd = end
	t.cur.End = attrEnd
}

func (t *tokenizer) appropriateEndTag() bool {
	return t.hasLastStartTag && string(t.tagName) == t.lastStartTag
}

func (t *tokenizer) contentStateFor(name string) state {
	switch name {
	case "title", "textarea":
		return sRCDATA
	case "style", "xmp", "iframe", "noembed", "noframes":
		return sRAWTEXT
	case "noscript":
		if t.opt.Scripting {
			return sRAWTEXT
		}
	case "script":
		return sScriptData
	case "plaintext":
		return sPLAINTEXT
	}
	return sData
}

// emitTag emits the current tag token. The caller has already switched to the
// data state; the tree-construction feedback may override that here.
func (t *tokenizer) emitTag() {
	t.commitAttr()
	t.flushText()
	tok := Token{
		Kind: t.tagKind, Name: string(t.tagName), Attrs: t.attrs,
		SelfClosing: t.selfClosing, Start: t.ltPos, End: t.clamp(t.pos),
	}
	t.res.Tokens = append(t.res.Tokens, tok)
	t.attrs = nil
	if t.tagKind == StartTag {
		t.lastStartTag = tok.Name
		t.hasLastStartTag = true
		if t.opt.Foreign {
			switch {
			case tok.Name == "svg" || tok.Name == "math":
				if !tok.SelfClosing {
					t.foreignDepth++
				}
			case foreignBreakout[tok.Name]:
				t.foreignDepth = 0
			}
		}
		if !t.opt.NoStateSwitch && t.foreignDepth == 0 {
			t.st = t.contentStateFor(tok.Name)
		}
	} else {
		if t.opt.Foreign && (tok.Name == "svg" || tok.Name == "math") && t.foreignDepth > 0 {
			t.foreignDepth--
		}
		if len(tok.Attrs) > 0 {
			t.err("end-tag-with-attributes")
		}
		if tok.SelfClosing {
			t.err("end-tag-with-trailing-solidus")
		}
	}
}

// foreignBreakout: start tags that end foreign content (HTML standard 13.2.6.5; font only with color / face / size,
// which is not modelled).
var foreignBreakout = map[string]bool{"b": true, "big": true, "blockquote": true, "body": true, "br": true, "center": true, "code": true, "dd": true, "div": true, "dl": true, "dt": true, "em": true, "embed": true,
	"h1": true, "h2": true, "h3": true, "h4": true, "h5": true, "h6": true, "head": true, "hr": true, "i": true, "img": true, "li": true, "listing": true, "menu": true, "meta": true, "nobr": true, "ol": true,
	"p": true, "pre": true, "ruby": true, "s": true, "small": true, "span": true, "strong": true, "strike": true, "sub": true, "sup": true, "table": true, "tt": true, "u": true, "ul": true, "var": true}

// ---- comments and doctypes -------------------------------------------------

func (t *tokenizer) newComment(data string) { t.comment = append(t.comment[:0], data...) }

func (t *tokenizer) emitComment() {
	t.flushText()
	t.res.Tokens = append(t.res.Tokens, Token{
		Kind: Comment, Data: string(t.comment), Start: t.ltPos, End: t.clamp(t.pos),
	})
}

func (t *tokenizer) newDoctype() {
	t.dtName = t.dtName[:0]
	t.dtPublic = t.dtPublic[:0]
	t.dtSystem = t.dtSystem[:0]
	t.dtHasPublic, t.dtHasSystem, t.dtQuirks = false, false, false
}

func (t *tokenizer) emitDoctype() {
	t.flushText()
	t.res.Tokens = append(t.res.Tokens, Token{
		Kind: Doctype, Name: string(t.dtName),
		PublicID: string(t.dtPublic), SystemID: string(t.dtSystem),
		HasPublicID: t.dtHasPublic, HasSystemID: t.dtHasSystem,
		ForceQuirks: t.dtQuirks,
		Start:       t.ltPos, End: t.clamp(t.pos),
	})
}

// ---- final state -----------------------------------------------------------

func (t *tokenizer) setFinal() {
	t.finalSet = true
	f := Final{State: stateNames[t.st]}
	switch {
	case t.st >= sRCDATA && t.st <= sPLAINTEXT,
		t.st >= sRCDATALessThanSign && t.st <= sScriptDataDoubleEscapeEnd:
		f.Element = t.lastStartTag
	case t.st == sTagName, t.st >= sBeforeAttributeName && t.st <= sSelfClosingStartTag:
		f.InTag = string(t.tagName)
		f.EndTag = t.tagKind == EndTag
		if t.st >= sAttributeName && t.st <= sAttributeValueUnquoted {
			f.InAttr = string(t.curName)
		}
	}
	t.res.Final = f
}

// ---- the state machine -----------------------------------------------------

func (t *tokenizer) step() {
	if t.pos >= len(t.in) && !t.finalSet {
		t.setFinal()
	}
	if t.st == sMarkupDeclarationOpen {
		t.markupDeclarationOpen()
		return
	}
	// Consume the next input character.
	c := eofChar
	if t.pos < len(t.in) {
		c = int(t.in[t.pos])
	}
	t.pos++
	cur := t.pos - 1 // offset of the current input character

	switch t.st {

	case sData:
		switch c {
		case '&':
			t.textCharRef(ModeData)
		case '<':
			t.ltPos = cur
			t.st = sTagOpen
		case 0:
			t.err("unexpected-null-character")
			t.emitCur(ModeData) // emitted as-is in the data state
		case eofChar:
			t.finish()
		default:
			t.emitCur(ModeData)
		}

	case sRCDATA:
		switch c {
		case '&':
			t.textCharRef(ModeRCDATA)
		case '<':
			t.ltPos = cur
			t.st = sRCDATALessThanSign
		case 0:
			t.err("unexpected-null-character")
			t.emitFFFD(ModeRCDATA)
		case eofChar:
			t.finish()
		default:
			t.emitCur(ModeRCDATA)
		}

	case sRAWTEXT:
		switch c {
		case '<':
			t.ltPos = cur
			t.st = sRAWTEXTLessThanSign
		case 0:
			t.err("unexpected-null-character")
			t.emitFFFD(ModeRAWTEXT)
		case eofChar:
			t.finish()
		default:
			t.emitCur(ModeRAWTEXT)
		}

	case sScriptData:
		switch c {
		case '<':
			t.ltPos = cur
			t.st = sScriptDataLessThanSign
		case 0:
			t.err("unexpected-null-character")
			t.emitFFFD(ModeScriptData)
		case eofChar:
			t.finish()
		default:
			t.emitCur(ModeScriptData)
		}

	case sPLAINTEXT:
		switch c {
		case 0:
			t.err("unexpected-null-character")
			t.emitFFFD(ModePLAINTEXT)
		case eofChar:
			t.finish()
		default:
			t.emitCur(ModePLAINTEXT)
		}

	case sTagOpen:
		switch {
		case c == '!':
			t.st = sMarkupDeclarationOpen
		case c == '/':
			t.st = sEndTagOpen
		case isAlpha(c):
			t.newTag(StartTag)
			t.reconsume(sTagName)
		case c == '?':
			t.err("unexpected-question-mark-instead-of-tag-name")
			t.newComment("")
			t.reconsume(sBogusComment)
		case c == eofChar:
			t.err("eof-before-tag-name")
			t.emitRaw(ModeData, t.ltPos, cur) // "<"
			t.finish()
		default:
			t.err("invalid-first-character-of-tag-name")
			t.emitRaw(ModeData, t.ltPos, cur) // "<"
			t.reconsume(sData)
		}

	case sEndTagOpen:
		switch {
		case isAlpha(c):
			t.newTag(EndTag)
			t.reconsume(sTagName)
		case c == '>':
			t.err("missing-end-tag-name")
			t.st = sData
		case c == eofChar:
			t.err("eof-before-tag-name")
			t.emitRaw(ModeData, t.ltPos, cur) // "</"
			t.finish()
		default:
			t.err("invalid-first-character-of-tag-name")
			t.newComment("")
			t.reconsume(sBogusComment)
		}

	case sTagName:
		switch {
		case isWS(c):
			t.st = sBeforeAttributeName
		case c == '/':
			t.st = sSelfClosingStartTag
		case c == '>':
			t.st = sData
			t.emitTag()
		case isUpper(c):
			t.tagName = append(t.tagName, byte(c)+0x20)
		case c == 0:
			t.err("unexpected-null-character")
			t.tagName = append(t.tagName, replacement...)
		case c == eofChar:
			t.err("eof-in-tag")
			t.finish()
		default:
			t.tagName = append(t.tagName, byte(c))
		}

	case sRCDATALessThanSign:
		t.rawLessThanSign(c, sRCDATA, sRCDATAEndTagOpen, ModeRCDATA)
	case sRCDATAEndTagOpen:
		t.rawEndTagOpen(c, sRCDATA, sRCDATAEndTagName, ModeRCDATA)
	case sRCDATAEndTagName:
		t.rawEndTagName(c, sRCDATA, ModeRCDATA)

	case sRAWTEXTLessThanSign:
		t.rawLessThanSign(c, sRAWTEXT, sRAWTEXTEndTagOpen, ModeRAWTEXT)
	case sRAWTEXTEndTagOpen:
		t.rawEndTagOpen(c, sRAWTEXT, sRAWTEXTEndTagName, ModeRAWTEXT)
	case sRAWTEXTEndTagName:
		t.rawEndTagName(c, sRAWTEXT, ModeRAWTEXT)

	case sScriptDataLessThanSign:
		switch c {
		case '/':
			t.temp = t.temp[:0]
			t.st = sScriptDataEndTagOpen
		case '!':
			t.st = sScriptDataEscapeStart
			t.emitRaw(ModeScriptData, t.ltPos, t.pos) // "<!"
		default:
			t.emitRaw(ModeScriptData, t.ltPos, cur) // "<"
			t.reconsume(sScriptData)
		}
	case sScriptDataEndTagOpen:
		t.rawEndTagOpen(c, sScriptData, sScriptDataEndTagName, ModeScriptData)
	case sScriptDataEndTagName:
		t.rawEndTagName(c, sScriptData, ModeScriptData)

	case sScriptDataEscapeStart:
		if c == '-' {
			t.st = sScriptDataEscapeStartDash
			t.emitCur(ModeScriptData)
		} else {
			t.reconsume(sScriptData)
		}

	case sScriptDataEscapeStartDash:
		if c == '-' {
			t.st = sScriptDataEscapedDashDash
			t.emitCur(ModeScriptData)
		} else {
			t.reconsume(sScriptData)
		}

	case sScriptDataEscaped:
		switch c {
		case '-':
			t.st = sScriptDataEscapedDash
			t.emitCur(ModeScriptData)
		case '<':
			t.ltPos = cur
			t.st = sScriptDataEscapedLessThanSign
		case 0:
			t.err("unexpected-null-character")
			t.emitFFFD(ModeScriptData)
		case eofChar:
			t.err("eof-in-script-html-comment-like-text")
			t.finish()
		default:
			t.emitCur(ModeScriptData)
		}

	case sScriptDataEscapedDash:
		switch c {
		case '-':
			t.st = sScriptDataEscapedDashDash
			t.emitCur(ModeScriptData)
		case '<':
			t.ltPos = cur
			t.st = sScriptDataEscapedLessThanSign
		case 0:
			t.err("unexpected-null-character")
			t.st = sScriptDataEscaped
			t.emitFFFD(ModeScriptData)
		case eofChar:
			t.err("eof-in-script-html-comment-like-text")
			t.finish()
		default:
			t.st = sScriptDataEscaped
			t.emitCur(ModeScriptData)
		}

	case sScriptDataEscapedDashDash:
		switch c {
		case '-':
			t.emitCur(ModeScriptData)
		case '<':
			t.ltPos = cur
			t.st = sScriptDataEscapedLessThanSign
		case '>':
			t.st = sScriptData
			t.emitCur(ModeScriptData)
		case 0:
			t.err("unexpected-null-character")
			t.st = sScriptDataEscaped
			t.emitFFFD(ModeScriptData)
		case eofChar:
			t.err("eof-in-script-html-comment-like-text")
			t.finish()
		default:
			t.st = sScriptDataEscaped
			t.emitCur(ModeScriptData)
		}

	case sScriptDataEscapedLessThanSign:
		switch {
		case c == '/':
			t.temp = t.temp[:0]
			t.st = sScriptDataEscapedEndTagOpen
		case isAlpha(c):
			t.temp = t.temp[:0]
			t.emitRaw(ModeScriptData, t.ltPos, cur) // "<"
			t.reconsume(sScriptDataDoubleEscapeStart)
		default:
			t.emitRaw(ModeScriptData, t.ltPos, cur) // "<"
			t.reconsume(sScriptDataEscaped)
		}
	case sScriptDataEscapedEndTagOpen:
		t.rawEndTagOpen(c, sScriptDataEscaped, sScriptDataEscapedEndTagName, ModeScriptData)
	case sScriptDataEscapedEndTagName:
		t.rawEndTagName(c, sScriptDataEscaped, ModeScriptData)

	case sScriptDataDoubleEscapeStart:
		switch {
		case isWS(c), c == '/', c == '>':
			if string(t.temp) == "script" {
				t.st = sScriptDataDoubleEscaped
			} else {
				t.st = sScriptDataEscaped
			}
			t.emitCur(ModeScriptData)
		case isUpper(c):
			t.temp = append(t.temp, byte(c)+0x20)
			t.emitCur(ModeScriptData)
		case isLower(c):
			t.temp = append(t.temp, byte(c))
			t.emitCur(ModeScriptData)
		default:
			t.reconsume(sScriptDataEscaped)
		}

	case sScriptDataDoubleEscaped:
		switch c {
		case '-':
			t.st = sScriptDataDoubleEscapedDash
			t.emitCur(ModeScriptData)
		case '<':
			t.st = sScriptDataDoubleEscapedLessThanSign
			t.emitCur(ModeScriptData)
		case 0:
			t.err("unexpected-null-character")
			t.emitFFFD(ModeScriptData)
		case eofChar:
			t.err("eof-in-script-html-comment-like-text")
			t.finish()
		default:
			t.emitCur(ModeScriptData)
		}

	case sScriptDataDoubleEscapedDash:
		switch c {
		case '-':
			t.st = sScriptDataDoubleEscapedDashDash
			t.emitCur(ModeScriptData)
		case '<':
			t.st = sScriptDataDoubleEscapedLessThanSign
			t.emitCur(ModeScriptData)
		case 0:
			t.err("unexpected-null-character")
			t.st = sScriptDataDoubleEscaped
			t.emitFFFD(ModeScriptData)
		case eofChar:
			t.err("eof-in-script-html-comment-like-text")
			t.finish()
		default:
			t.st = sScriptDataDoubleEscaped
			t.emitCur(ModeScriptData)
		}

	case sScriptDataDoubleEscapedDashDash:
		switch c {
		case '-':
			t.emitCur(ModeScriptData)
		case '<':
			t.st = sScriptDataDoubleEscapedLessThanSign
			t.emitCur(ModeScriptData)
		case '>':
			t.st = sScriptData
			t.emitCur(ModeScriptData)
		case 0:
			t.err("unexpected-null-character")
			t.st = sScriptDataDoubleEscaped
			t.emitFFFD(ModeScriptData)
		case eofChar:
			t.err("eof-in-script-html-comment-like-text")
			t.finish()
		default:
			t.st = sScriptDataDoubleEscaped
			t.emitCur(ModeScriptData)
		}

	case sScriptDataDoubleEscapedLessThanSign:
		if c == '/' {
			t.temp = t.temp[:0]
			t.st = sScriptDataDoubleEscapeEnd
			t.emitCur(ModeScriptData)
		} else {
			t.reconsume(sScriptDataDoubleEscaped)
		}

	case sScriptDataDoubleEscapeEnd:
		switch {
		case isWS(c), c == '/', c == '>':
			if string(t.temp) == "script" {
				t.st = sScriptDataEscaped
			} else {
				t.st = sScriptDataDoubleEscaped
			}
			t.emitCur(ModeScriptData)
		case isUpper(c):
			t.temp = append(t.temp, byte(c)+0x20)
			t.emitCur(ModeScriptData)
		case isLower(c):
			t.temp = append(t.temp, byte(c))
			t.emitCur(ModeScriptData)
		default:
			t.reconsume(sScriptDataDoubleEscaped)
		}

	case sBeforeAttributeName:
		switch {
		case isWS(c):
			// ignore
		case c == '/', c == '>', c == eofChar:
			t.reconsume(sAfterAttributeName)
		case c == '=':
			t.err("unexpected-equals-sign-before-attribute-name")
			t.newAttr(cur)
			t.curName = append(t.curName, '=')
			t.st = sAttributeName
		default:
			t.newAttr(cur)
			t.reconsume(sAttributeName)
		}

	case sAttributeName:
		switch {
		case isWS(c), c == '/', c == '>', c == eofChar:
			t.leaveAttrName(t.clamp(cur))
			t.reconsume(sAfterAttributeName)
		case c == '=':
			t.leaveAttrName(cur)
			t.st = sBeforeAttributeValue
		case isUpper(c):
			t.curName = append(t.curName, byte(c)+0x20)
		case c == 0:
			t.err("unexpected-null-character")
			t.curName = append(t.curName, replacement...)
		case c == '"', c == '\'', c == '<':
			t.err("unexpected-character-in-attribute-name")
			t.curName = append(t.curName, byte(c))
		default:
			t.curName = append(t.curName, byte(c))
		}

	case sAfterAttributeName:
		switch {
		case isWS(c):
			// ignore
		case c == '/':
			t.st = sSelfClosingStartTag
		case c == '=':
			t.st = sBeforeAttributeValue
		case c == '>':
			t.st = sData
			t.emitTag()
		case c == eofChar:
			t.err("eof-in-tag")
			t.finish()
		default:
			t.newAttr(cur)
			t.reconsume(sAttributeName)
		}

	case sBeforeAttributeValue:
		switch {
		case isWS(c):
			// ignore
		case c == '"':
			t.startValue('"', t.pos)
			t.st = sAttributeValueDoubleQuoted
		case c == '\'':
			t.startValue('\'', t.pos)
			t.st = sAttributeValueSingleQuoted
		case c == '>':
			t.err("missing-attribute-value")
			t.st = sData
			t.emitTag()
		default:
			t.startValue(0, t.clamp(cur))
			t.reconsume(sAttributeValueUnquoted)
		}

	case sAttributeValueDoubleQuoted, sAttributeValueSingleQuoted:
		q := '"'
		if t.st == sAttributeValueSingleQuoted {
			q = '\''
		}
		switch {
		case c == int(q):
			t.endValue(cur, t.pos)
			t.st = sAfterAttributeValueQuoted
		case c == '&':
			t.curVal = append(t.curVal, t.charRef(true)...)
		case c == 0:
			t.err("unexpected-null-character")
			t.curVal = append(t.curVal, replacement...)
		case c == eofChar:
			t.err("eof-in-tag")
			t.finish()
		default:
			t.curVal = append(t.curVal, byte(c))
		}

	case sAttributeValueUnquoted:
		switch {
		case isWS(c):
			t.endValue(cur, cur)
			t.st = sBeforeAttributeName
		case c == '&':
			t.curVal = append(t.curVal, t.charRef(true)...)
		case c == '>':
			t.endValue(cur, cur)
			t.st = sData
			t.emitTag()
		case c == 0:
			t.err("unexpected-null-character")
			t.curVal = append(t.curVal, replacement...)
		case c == eofChar:
			t.err("eof-in-tag")
			t.finish()
		case c == '"', c == '\'', c == '<', c == '=', c == '`':
			t.err("unexpected-character-in-unquoted-attribute-value")
			t.curVal = append(t.curVal, byte(c))
		default:
			t.curVal = append(t.curVal, byte(c))
		}

	case sAfterAttributeValueQuoted:
		switch {
		case isWS(c):
			t.st = sBeforeAttributeName
		case c == '/':
			t.st = sSelfClosingStartTag
		case c == '>':
			t.st = sData
			t.emitTag()
		case c == eofChar:
			t.err("eof-in-tag")
			t.finish()
		default:
			t.err("missing-whitespace-between-attributes")
			t.reconsume(sBeforeAttributeName)
		}

	case sSelfClosingStartTag:
		switch c {
		case '>':
			t.selfClosing = true
			t.st = sData
			t.emitTag()
		case eofChar:
			t.err("eof-in-tag")
			t.finish()
		default:
			t.err("unexpected-solidus-in-tag")
			t.reconsume(sBeforeAttributeName)
		}

	case sBogusComment:
		switch c {
		case '>':
			t.st = sData
			t.emitComment()
		case eofChar:
			t.emitComment()
			t.finish()
		case 0:
			t.err("unexpected-null-character")
			t.comment = append(t.comment, replacement...)
		default:
			t.comment = append(t.comment, byte(c))
		}

	case sCommentStart:
		switch c {
		case '-':
			t.st = sCommentStartDash
		case '>':
			t.err("abrupt-closing-of-empty-comment")
			t.st = sData
			t.emitComment()
		default:
			t.reconsume(sComment)
		}

	case sCommentStartDash:
		switch c {
		case '-':
			t.st = sCommentEnd
		case '>':
			t.err("abrupt-closing-of-empty-comment")
			t.st = sData
			t.emitComment()
		case eofChar:
			t.err("eof-in-comment")
			t.emitComment()
			t.finish()
		default:
			t.comment = append(t.comment, '-')
			t.reconsume(sComment)
		}

	case sComment:
		switch c {
		case '<':
			t.comment = append(t.comment, '<')
			t.st = sCommentLessThanSign
		case '-':
			t.st = sCommentEndDash
		case 0:
			t.err("unexpected-null-character")
			t.comment = append(t.comment, replacement...)
		case eofChar:
			t.err("eof-in-comment")
			t.emitComment()
			t.finish()
		default:
			t.comment = append(t.comment, byte(c))
		}

	case sCommentLessThanSign:
		switch c {
		case '!':
			t.comment = append(t.comment, '!')
			t.st = sCommentLessThanSignBang
		case '<':
			t.comment = append(t.comment, '<')
		default:
			t.reconsume(sComment)
		}

	case sCommentLessThanSignBang:
		if c == '-' {
			t.st = sCommentLessThanSignBangDash
		} else {
			t.reconsume(sComment)
		}

	case sCommentLessThanSignBangDash:
		if c == '-' {
			t.st = sCommentLessThanSignBangDashDash
		} else {
			t.reconsume(sCommentEndDash)
		}

	case sCommentLessThanSignBangDashDash:
		if c == '>' || c == eofChar {
			t.reconsume(sCommentEnd)
		} else {
			t.err("nested-comment")
			t.reconsume(sCommentEnd)
		}

	case sCommentEndDash:
		switch c {
		case '-':
			t.st = sCommentEnd
		case eofChar:
			t.err("eof-in-comment")
			t.emitComment()
			t.finish()
		default:
			t.comment = append(t.comment, '-')
			t.reconsume(sComment)
		}

	case sCommentEnd:
		switch c {
		case '>':
			t.st = sData
			t.emitComment()
		case '!':
			t.st = sCommentEndBang
		case '-':
			t.comment = append(t.comment, '-')
		case eofChar:
			t.err("eof-in-comment")
			t.emitComment()
			t.finish()
		default:
			t.comment = append(t.comment, "--"...)
			t.reconsume(sComment)
		}

	case sCommentEndBang:
		switch c {
		case '-':
			t.comment = append(t.comment, "--!"...)
			t.st = sCommentEndDash
		case '>':
			t.err("incorrectly-closed-comment")
			t.st = sData
			t.emitComment()
		case eofChar:
			t.err("eof-in-comment")
			t.emitComment()
			t.finish()
		default:
			t.comment = append(t.comment, "--!"...)
			t.reconsume(sComment)
		}

	case sDOCTYPE:
		switch {
		case isWS(c):
			t.st = sBeforeDOCTYPEName
		case c == '>':
			t.reconsume(sBeforeDOCTYPEName)
		case c == eofChar:
			t.err("eof-in-doctype")
			t.newDoctype()
			t.dtQuirks = true
			t.emitDoctype()
			t.finish()
		default:
			t.err("missing-whitespace-before-doctype-name")
			t.reconsume(sBeforeDOCTYPEName)
		}

	case sBeforeDOCTYPEName:
		switch {
		case isWS(c):
			// ignore
		case isUpper(c):
			t.newDoctype()
			t.dtName = append(t.dtName, byte(c)+0x20)
			t.st = sDOCTYPEName
		case c == 0:
			t.err("unexpected-null-character")
			t.newDoctype()
			t.dtName = append(t.dtName, replacement...)
			t.st = sDOCTYPEName
		case c == '>':
			t.err("missing-doctype-name")
			t.newDoctype()
			t.dtQuirks = true
			t.st = sData
			t.emitDoctype()
		case c == eofChar:
			t.err("eof-in-doctype")
			t.newDoctype()
			t.dtQuirks = true
			t.emitDoctype()
			t.finish()
		default:
			t.newDoctype()
			t.dtName = append(t.dtName, byte(c))
			t.st = sDOCTYPEName
		}

	case sDOCTYPEName:
		switch {
		case isWS(c):
			t.st = sAfterDOCTYPEName
		case c == '>':
			t.st = sData
			t.emitDoctype()
		case isUpper(c):
			t.dtName = append(t.dtName, byte(c)+0x20)
		case c == 0:
			t.err("unexpected-null-character")
			t.dtName = append(t.dtName, replacement...)
		case c == eofChar:
			t.doctypeEOF()
		default:
			t.dtName = append(t.dtName, byte(c))
		}

	case sAfterDOCTYPEName:
		switch {
		case isWS(c):
			// ignore
		case c == '>':
			t.st = sData
			t.emitDoctype()
		case c == eofChar:
			t.doctypeEOF()
		default:
			if t.lookingAtFold(cur, "PUBLIC") {
				t.pos = cur + 6
				t.st = sAfterDOCTYPEPublicKeyword
			} else if t.lookingAtFold(cur, "SYSTEM") {
				t.pos = cur + 6
				t.st = sAfterDOCTYPESystemKeyword
			} else {
				t.err("invalid-character-sequence-after-doctype-name")
				t.dtQuirks = true
				t.reconsume(sBogusDOCTYPE)
			}
		}

	case sAfterDOCTYPEPublicKeyword:
		switch {
		case isWS(c):
			t.st = sBeforeDOCTYPEPublicIdentifier
		case c == '"':
			t.err("missing-whitespace-after-doctype-public-keyword")
			t.dtHasPublic = true
			t.st = sDOCTYPEPublicIdentifierDoubleQuoted
		case c == '\'':
			t.err("missing-whitespace-after-doctype-public-keyword")
			t.dtHasPublic = true
			t.st = sDOCTYPEPublicIdentifierSingleQuoted
		case c == '>':
			t.err("missing-doctype-public-identifier")
			t.dtQuirks = true
			t.st = sData
			t.emitDoctype()
		case c == eofChar:
			t.doctypeEOF()
		default:
			t.err("missing-quote-before-doctype-public-identifier")
			t.dtQuirks = true
			t.reconsume(sBogusDOCTYPE)
		}

	case sBeforeDOCTYPEPublicIdentifier:
		switch {
		case isWS(c):
			// ignore
		case c == '"':
			t.dtHasPublic = true
			t.st = sDOCTYPEPublicIdentifierDoubleQuoted
		case c == '\'':
			t.dtHasPublic = true
			t.st = sDOCTYPEPublicIdentifierSingleQuoted
		case c == '>':
			t.err("missing-doctype-public-identifier")
			t.dtQuirks = true
			t.st = sData
			t.emitDoctype()
		case c == eofChar:
			t.doctypeEOF()
		default:
			t.err("missing-quote-before-doctype-public-identifier")
			t.dtQuirks = true
			t.reconsume(sBogusDOCTYPE)
		}

	case sDOCTYPEPublicIdentifierDoubleQuoted, sDOCTYPEPublicIdentifierSingleQuoted:
		q := '"'
		if t.st == sDOCTYPEPublicIdentifierSingleQuoted {
			q = '\''
		}
		switch {
		case c == int(q):
			t.st = sAfterDOCTYPEPublicIdentifier
		case c == 0:
			t.err("unexpected-null-character")
			t.dtPublic = append(t.dtPublic, replacement...)
		case c == '>':
			t.err("abrupt-doctype-public-identifier")
			t.dtQuirks = true
			t.st = sData
			t.emitDoctype()
		case c == eofChar:
			t.doctypeEOF()
		default:
			t.dtPublic = append(t.dtPublic, byte(c))
		}

	case sAfterDOCTYPEPublicIdentifier:
		switch {
		case isWS(c):
			t.st = sBetweenDOCTYPEPublicAndSystemIdentifiers
		case c == '>':
			t.st = sData
			t.emitDoctype()
		case c == '"':
			t.err("missing-whitespace-between-doctype-public-and-system-identifiers")
			t.dtHasSystem = true
			t.st = sDOCTYPESystemIdentifierDoubleQuoted
		case c == '\'':
			t.err("missing-whitespace-between-doctype-public-and-system-identifiers")
			t.dtHasSystem = true
			t.st = sDOCTYPESystemIdentifierSingleQuoted
		case c == eofChar:
			t.doctypeEOF()
		default:
			t.err("missing-quote-before-doctype-system-identifier")
			t.dtQuirks = true
			t.reconsume(sBogusDOCTYPE)
		}

	case sBetweenDOCTYPEPublicAndSystemIdentifiers:
		switch {
		case isWS(c):
			// ignore
		case c == '>':
			t.st = sData
			t.emitDoctype()
		case c == '"':
			t.dtHasSystem = true
			t.st = sDOCTYPESystemIdentifierDoubleQuoted
		case c == '\'':
			t.dtHasSystem = true
			t.st = sDOCTYPESystemIdentifierSingleQuoted
		case c == eofChar:
			t.doctypeEOF()
		default:
			t.err("missing-quote-before-doctype-system-identifier")
			t.dtQuirks = true
			t.reconsume(sBogusDOCTYPE)
		}

	case sAfterDOCTYPESystemKeyword:
		switch {
		case isWS(c):
			t.st = sBeforeDOCTYPESystemIdentifier
		case c == '"':
			t.err("missing-whitespace-after-doctype-system-keyword")
			t.dtHasSystem = true
			t.st = sDOCTYPESystemIdentifierDoubleQuoted
		case c == '\'':
			t.err("missing-whitespace-after-doctype-system-keyword")
			t.dtHasSystem = true
			t.st = sDOCTYPESystemIdentifierSingleQuoted
		case c == '>':
			t.err("missing-doctype-system-identifier")
			t.dtQuirks = true
			t.st = sData
			t.emitDoctype()
		case c == eofChar:
			t.doctypeEOF()
		default:
			t.err("missing-quote-before-doctype-system-identifier")
			t.dtQuirks = true
			t.reconsume(sBogusDOCTYPE)
		}

	case sBeforeDOCTYPESystemIdentifier:
		switch {
		case isWS(c):
			// ignore
		case c == '"':
			t.dtHasSystem = true
			t.st = sDOCTYPESystemIdentifierDoubleQuoted
		case c == '\'':
			t.dtHasSystem = true
			t.st = sDOCTYPESystemIdentifierSingleQuoted
		case c == '>':
			t.err("missing-doctype-system-identifier")
			t.dtQuirks = true
			t.st = sData
			t.emitDoctype()
		case c == eofChar:
			t.doctypeEOF()
		default:
			t.err("missing-quote-before-doctype-system-identifier")
			t.dtQuirks = true
			t.reconsume(sBogusDOCTYPE)
		}

	case sDOCTYPESystemIdentifierDoubleQuoted, sDOCTYPESystemIdentifierSingleQuoted:
		q := '"'
		if t.st == sDOCTYPESystemIdentifierSingleQuoted {
			q = '\''
		}
		switch {
		case c == int(q):
			t.st = sAfterDOCTYPESystemIdentifier
		case c == 0:
			t.err("unexpected-null-character")
			t.dtSystem = append(t.dtSystem, replacement...)
		case c == '>':
			t.err("abrupt-doctype-system-identifier")
			t.dtQuirks = true
			t.st = sData
			t.emitDoctype()
		case c == eofChar:
			t.doctypeEOF()
		default:
			t.dtSystem = append(t.dtSystem, byte(c))
		}

	case sAfterDOCTYPESystemIdentifier:
		switch {
		case isWS(c):
			// ignore
		case c == '>':
			t.st = sData
			t.emitDoctype()
		case c == eofChar:
			t.doctypeEOF()
		default:
			t.err("unexpected-character-after-doctype-system-identifier")
			t.reconsume(sBogusDOCTYPE) // does not set force-quirks
		}

	case sBogusDOCTYPE:
		switch c {
		case '>':
			t.st = sData
			t.emitDoctype()
		case 0:
			t.err("unexpected-null-character")
		case eofChar:
			t.emitDoctype()
			t.finish()
		default:
			// ignore
		}

	case sCDATASection:
		switch c {
		case ']':
			t.st = sCDATASectionBracket
		case eofChar:
			t.err("eof-in-cdata")
			t.finish()
		default:
			t.emitCur(ModeCDATA) // NUL is emitted as-is; the tree builder deals with it
		}

	case sCDATASectionBracket:
		if c == ']' {
			t.st = sCDATASectionEnd
		} else {
			t.emitRaw(ModeCDATA, cur-1, cur) // "]"
			t.reconsume(sCDATASection)
		}

	case sCDATASectionEnd:
		switch c {
		case ']':
			t.emitRaw(ModeCDATA, cur-2, cur-1) // the oldest pending "]"
		case '>':
			t.st = sData
		default:
			t.emitRaw(ModeCDATA, cur-2, cur) // "]]"
			t.reconsume(sCDATASection)
		}

	default:
		panic("htmltok: unreachable state")
	}
}

// doctypeEOF is the common EOF handling of the DOCTYPE states that already
// have a token: eof-in-doctype, force-quirks on, emit, EOF.
func (t *tokenizer) doctypeEOF() {
	t.err("eof-in-doctype")
	t.dtQuirks = true
	t.emitDoctype()
	t.finish()
}

// lookingAtFold reports whether the input at offset p matches the (upper-case
// ASCII) keyword kw ASCII-case-insensitively.
func (t *tokenizer) lookingAtFold(p int, kw string) bool {
	if p < 0 || p+len(kw) > len(t.in) {
		return false
	}
	for i := 0; i < len(kw); i++ {
		c := t.in[p+i]
		if c >= 'a' && c <= 'z' {
			c -= 0x20
		}
		if c != kw[i] {
			return false
		}
	}
	return true
}

func (t *tokenizer) lookingAt(p int, s string) bool {
	return p >= 0 && p+len(s) <= len(t.in) && string(t.in[p:p+len(s)]) == s
}

// markupDeclarationOpen implements §13.2.5.42; it is the one state that looks
// ahead without consuming.
func (t *tokenizer) markupDeclarationOpen() {
	switch {
	case t.lookingAt(t.pos, "--"):
		t.pos += 2
		t.newComment("")
		t.st = sCommentStart
	case t.lookingAtFold(t.pos, "DOCTYPE"):
		t.pos += 7
		t.st = sDOCTYPE
	case t.lookingAt(t.pos, "[CDATA["):
		t.pos += 7
		if t.opt.NoStateSwitch {
			// "adjusted current node is not an element in the HTML namespace"
			t.st = sCDATASection
		} else {
			t.err("cdata-in-html-content")
			t.newComment("[CDATA[")
			t.st = sBogusComment
		}
	default:
		t.err("incorrectly-opened-comment")
		t.newComment("")
		t.st = sBogusComment
	}
}

// rawLessThanSign: RCDATA / RAWTEXT less-than sign states.
func (t *tokenizer) rawLessThanSign(c int, base, endOpen state, m Mode) {
	if c == '/' {
		t.temp = t.temp[:0]
		t.st = endOpen
		return
	}
	t.emitRaw(m, t.ltPos, t.pos-1) // "<"
	t.reconsume(base)
}

// rawEndTagOpen: RCDATA / RAWTEXT / script data (escaped) end tag open states.
func (t *tokenizer) rawEndTagOpen(c int, base, endName state, m Mode) {
	if isAlpha(c) {
		t.newTag(EndTag)
		t.reconsume(endName)
		return
	}
	t.emitRaw(m, t.ltPos, t.pos-1) // "</"
	t.reconsume(base)
}

// rawEndTagName: RCDATA / RAWTEXT / script data (escaped) end tag name states.
func (t *tokenizer) rawEndTagName(c int, base state, m Mode) {
	switch {
	case isWS(c):
		if t.appropriateEndTag() {
			t.st = sBeforeAttributeName
			return
		}
	case c == '/':
		if t.appropriateEndTag() {
			t.st = sSelfClosingStartTag
			return
		}
	case c == '>':
		if t.appropriateEndTag() {
			t.st = sData
			t.emitTag()
			return
		}
	case isUpper(c):
		t.tagName = append(t.tagName, byte(c)+0x20)
		t.temp = append(t.temp, byte(c))
		return
	case isLower(c):
		t.tagName = append(t.tagName, byte(c))
		t.temp = append(t.temp, byte(c))
		return
	}
	// "<", "/" and the temporary buffer: exactly the input since the "<".
	t.emitRaw(m, t.ltPos, t.pos-1)
	t.reconsume(base)
}

// textCharRef handles '&' in the data and RCDATA states.
func (t *tokenizer) textCharRef(m Mode) {
	amp := t.pos - 1
	b := t.charRef(false)
	t.emitBytes(m, b, amp, t.pos)
}

// ---- debugging / canonical forms -------------------------------------------

// String renders the token in a compact, unambiguous-enough debugging form:
//
//	<name k="v" k2='v' k3=v k4 !dup="v"/>   start tag (Value, i.e. decoded)
//	</name>                                  end tag
//	<!--data-->                              comment
//	<!DOCTYPE name PUBLIC "p" SYSTEM "s">    doctype
//	mode:"data"                              text (Go-quoted)
func (t Token) String() string {
	var b strings.Builder
	switch t.Kind {
	case StartTag, EndTag:
		b.WriteByte('<')
		if t.Kind == EndTag {
			b.WriteByte('/')
		}
		b.WriteString(t.Name)
		for _, a := range t.Attrs {
			b.WriteByte(' ')
			if a.Dropped {
				b.WriteByte('!')
			}
			b.WriteString(a.Name)
			if a.HasValue {
				b.WriteByte('=')
				if a.Quote != 0 {
					b.WriteByte(a.Quote)
				}
				b.WriteString(a.Value)
				if a.Quote != 0 {
					b.WriteByte(a.Quote)
				}
			}
		}
		if t.SelfClosing {
			b.WriteByte('/')
		}
		b.WriteByte('>')
	case Comment:
		b.WriteString("<!--" + t.Data + "-->")
	case Doctype:
		b.WriteString("<!DOCTYPE " + t.Name)
		if t.HasPublicID {
			fmt.Fprintf(&b, " PUBLIC %q", t.PublicID)
		}
		if t.HasSystemID {
			fmt.Fprintf(&b, " SYSTEM %q", t.SystemID)
		}
		if t.ForceQuirks {
			b.WriteString(" quirks")
		}
		b.WriteByte('>')
	case Text:
		fmt.Fprintf(&b, "%s:%q", t.Mode, t.Data)
	}
	return b.String()
}

// Skeleton returns a canonical structural summary of the token stream, one
// string per structural token, ignoring text contents and attribute values:
//
//	start tag:  "<name attr1 attr2 ...>" (attribute names in order, dropped
//	            duplicates included with a leading '!'), plus "/" before ">"
//	            if self-closing
//	end tag:    "</name>"
//	comment:    "<!---->"
//	doctype:    "<!DOCTYPE>"
//	text:       nothing for ModeData text; for other modes one marker
//	            "#rcdata", "#rawtext", "#script", "#plaintext", "#cdata" per
//	            text token
func Skeleton(r Result) []string {
	var out []string
	for _, t := range r.Tokens {
		switch t.Kind {
		case StartTag:
			var b strings.Builder
			b.WriteByte('<')
			b.WriteString(t.Name)
			for _, a := range t.Attrs {
				b.WriteByte(' ')
				if a.Dropped {
					b.WriteByte('!')
				}
				b.WriteString(a.Name)
			}
			if t.SelfClosing {
				b.WriteByte('/')
			}
			b.WriteByte('>')
			out = append(out, b.String())
		case EndTag:
			out = append(out, "</"+t.Name+">")
		case Comment:
			out = append(out, "<!---->")
		case Doctype:
			out = append(out, "<!DOCTYPE>")
		case Text:
			if t.Mode != ModeData {
				out = append(out, "#"+t.Mode.String())
			}
		}
	}
	return out
}
