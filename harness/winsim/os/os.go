// Package os stands in for package os as compiled for GOOS=windows, as far as template/trustedsource.go uses it
// (see checks/c20, sub-property "windows").
package os

import realos "os"

const (
	PathSeparator     = '\\'
	PathListSeparator = ';'
)

// IsPathSeparator is os.IsPathSeparator of GOOS=windows (src/os/path_windows.go).
func IsPathSeparator(c uint8) bool { return c == '\\' || c == '/' }

func Getenv(key string) string { return realos.Getenv(key) }
