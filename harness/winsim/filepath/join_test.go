package filepath

import "testing"

// vectors from go/src/path/filepath/path_test.go (winjointests, wincleantests, volume names)
func TestWinJoin(t *testing.T) {
	for _, c := range []struct {
		in   []string
		want string
	}{
		{[]string{`directory`, `file`}, `directory\file`},
		{[]string{`C:\Windows\`, `System32`}, `C:\Windows\System32`},
		{[]string{`C:\Windows\`, ``}, `C:\Windows`},
		{[]string{`C:\`, `Windows`}, `C:\Windows`},
		{[]string{`C:`, `a`}, `C:a`},
		{[]string{`C:`, `a\b`}, `C:a\b`},
		{[]string{`C:`, `a`, `b`}, `C:a\b`},
		{[]string{`C:`, ``, `b`}, `C:b`},
		{[]string{`C:`, ``, ``, `b`}, `C:b`},
		{[]string{`C:`, ``}, `C:.`},
		{[]string{`C:.`, `a`}, `C:a`},
		{[]string{`C:a`, `b`}, `C:a\b`},
		{[]string{`\\host\share`, `foo`}, `\\host\share\foo`},
		{[]string{`\\host\share\foo`}, `\\host\share\foo`},
		{[]string{`//host/share`, `foo/bar`}, `\\host\share\foo\bar`},
		{[]string{`\`}, `\`},
		{[]string{`\`, ``}, `\`},
		{[]string{`\`, `a`}, `\a`},
		{[]string{`\\`, `a`}, `\\a`},
		{[]string{`//`, `a`}, `\\a`},
		{[]string{`a`, `//b`}, `a\b`},
		{[]string{`\`, `??\a`}, `\.\??\a`},
		{[]string{`a`, `..`, `b`}, `b`},
		{[]string{`a`, `../..`, `b`}, `..\b`},
	} {
		if got := Join(c.in...); got != c.want {
			t.Errorf("Join(%q)=%q want %q", c.in, got, c.want)
		}
	}
	for in, want := range map[string]string{`c:`: `c:`, `2:`: `2:`, `C:\x`: `C:`, `\\host\share\foo`: `\\host\share`, `//host/share`: `\\host\share`, `ab:c`: ``, ``: ``, `\\.\pipe\x`: `\\.\pipe`} {
		if got := VolumeName(in); got != want {
			t.Errorf("VolumeName(%q)=%q want %q", in, got, want)
		}
	}
}
