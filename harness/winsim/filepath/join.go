package filepath

import "strings"

// Join is path/filepath.Join as compiled for GOOS=windows (go1.23.5
// src/path/filepath/path_windows.go func join), with os.IsPathSeparator
// replaced by the identical filepathlite.IsPathSeparator.
func Join(elem ...string) string {
	var b strings.Builder
	var lastChar byte
	for _, e := range elem {
		switch {
		case b.Len() == 0:
		case IsPathSeparator(lastChar):
			for len(e) > 0 && IsPathSeparator(e[0]) {
				e = e[1:]
			}
			if b.Len() == 1 && strings.HasPrefix(e, "??") && (len(e) == len("??") || IsPathSeparator(e[2])) {
				b.WriteString(`.\`)
			}
		case lastChar == ':':
		default:
			b.WriteByte('\\')
			lastChar = '\\'
		}
		if len(e) > 0 {
			b.WriteString(e)
			lastChar = e[len(e)-1]
		}
	}
	if b.Len() == 0 {
		return ""
	}
	return Clean(b.String())
}
