// Package filepath is path/filepath as compiled for GOOS=windows, for use on any host: path.go and pathwin.go are
// internal/filepathlite/path.go and path_windows.go of go1.23.5 (imports of internal packages replaced by package
// strings, the syscall-based reserved-name probe disabled), join.go is func join of path/filepath/path_windows.go.
// TestWinJoin compares it with vectors from the standard library's own tests.
//
// It is NOT an oracle: it is the platform library that the code under test calls on a Windows host. checks/c20
// compiles a copy of /repo's template/trustedsource.go against it (bin/gen-winsrc) so that the behaviour of
// TrustedSourceFromConstantDir on Windows can be searched on this host.
package filepath
