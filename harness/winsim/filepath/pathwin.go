// Copyright 2010 The Go Authors. All rights reserved.
// Use of this source code is governed by a BSD-style
// license that can be found in the LICENSE file.

package filepath

import (
	"strings"
)

const (
	Separator     = '\\' // OS-specific path separator
	ListSeparator = ';'  // OS-specific path list separator
)

func IsPathSeparator(c uint8) bool {
	return c == '\\' || c == '/'
}

func isLocal(path string) bool {
	if path == "" {
		return false
	}
	if IsPathSeparator(path[0]) {
		// Path rooted in the current drive.
		return false
	}
	if strings.IndexByte(path, ':') >= 0 {
		// Colons are only valid when marking a drive letter ("C:foo").
		// Rejecting any path with a colon is conservative but safe.
		return false
	}
	hasDots := false // contains . or .. path elements
	for p := path; p != ""; {
		var part string
		part, p, _ = cutPath(p)
		if part == "." || part == ".." {
			hasDots = true
		}
		if isReservedName(part) {
			return false
		}
	}
	if hasDots {
		path = Clean(path)
	}
	if path == ".." || strings.HasPrefix(path, `..\`) {
		return false
	}
	return true
}

func localize(path string) (string, error) {
	for i := 0; i < len(path); i++ {
		switch path[i] {
		case ':', '\\', 0:
			return "", errInvalidPath
		}
	}
	containsSlash := false
	for p := path; p != ""; {
		// Find the next path element.
		var element string
		i := strings.IndexByte(p, '/')
		if i < 0 {
			element = p
			p = ""
		} else {
			containsSlash = true
			element = p[:i]
			p = p[i+1:]
		}
		if isReservedName(element) {
			return "", errInvalidPath
		}
	}
	if containsSlash {
		// We can't depend on strings, so substitute \ for / manually.
		buf := []byte(path)
		for i, b := range buf {
			if b == '/' {
				buf[i] = '\\'
			}
		}
		path = string(buf)
	}
	return path, nil
}

// isReservedName reports if name is a Windows reserved device name.
// It does not detect names with an extension, which are also reserved on some Windows versions.
//
// For details, search for PRN in
// https://docs.microsoft.com/en-us/windows/desktop/fileio/naming-a-file.
func isReservedName(name string) bool {
	// Device names can have arbitrary trailing characters following a dot or colon.
	base := name
	for i := 0; i < len(base); i++ {
		switch base[i] {
		case ':', '.':
			base = base[:i]
		}
	}
	// Trailing spaces in the last path element are ignored.
	for len(base) > 0 && base[len(base)-1] == ' ' {
		base = base[:len(base)-1]
	}
	if !isReservedBaseName(base) {
		return false
	}
	if len(base) == len(name) {
		return true
	}
	// The path element is a reserved name with an extension.
	// Some Windows versions consider this a reserved name,
	// while others do not. Use FullPath to see if the name is
	// reserved.
	if false {
		return true
	}
	return false
}

func isReservedBaseName(name string) bool {
	if len(name) == 3 {
		switch string([]byte{toUpper(name[0]), toUpper(name[1]), toUpper(name[2])}) {
		case "CON", "PRN", "AUX", "NUL":
			return true
		}
	}
	if len(name) >= 4 {
		switch string([]byte{toUpper(name[0]), toUpper(name[1]), toUpper(name[2])}) {
		case "COM", "LPT":
			if len(name) == 4 && '1' <= name[3] && name[3] <= '9' {
				return true
			}
			// Superscript ¹, ², and ³ are considered numbers as well.
			switch name[3:] {
			case "\u00b2", "\u00b3", "\u00b9":
				return true
			}
			return false
		}
	}

	// Passing CONIN$ or CONOUT$ to CreateFile opens a console handle.
	// https://learn.microsoft.com/en-us/windows/win32/api/fileapi/nf-fileapi-createfilea#consoles
	//
	// While CONIN$ and CONOUT$ aren't documented as being files,
	// they behave the same as CON. For example, ./CONIN$ also opens the console input.
	if len(name) == 6 && name[5] == '$' && equalFold(name, "CONIN$") {
		return true
	}
	if len(name) == 7 && name[6] == '$' && equalFold(name, "CONOUT$") {
		return true
	}
	return false
}

func equalFold(a, b string) bool {
	if len(a) != len(b) {
		return false
	}
	for i := 0; i < len(a); i++ {
		if toUpper(a[i]) != toUpper(b[i]) {
			return false
		}
	}
	return true
}

func toUpper(c byte) byte {
	if 'a' <= c && c <= 'z' {
		return c - ('a' - 'A')
	}
	return c
}

// IsAbs reports whether the path is absolute.
func IsAbs(path string) (b bool) {
	l := volumeNameLen(path)
	if l == 0 {
		return false
	}
	// If the volume name starts with a double slash, this is an absolute path.
	if IsPathSeparator(path[0]) && IsPathSeparator(path[1]) {
		return true
	}
	path = path[l:]
	if path == "" {
		return false
	}
	return IsPathSeparator(path[0])
}

// volumeNameLen returns length of the leading volume name on Windows.
// It returns 0 elsewhere.
//
// See:
// https://learn.microsoft.com/en-us/dotnet/standard/io/file-path-formats
// https://googleprojectzero.blogspot.com/2016/02/the-definitive-guide-on-win32-to-nt.html
func volumeNameLen(path string) int {
	switch {
	case len(path) >= 2 && path[1] == ':':
		// Path starts with a drive letter.
		//
		// Not all Windows functions necessarily enforce the requirement that
		// drive letters be in the set A-Z, and we don't try to here.
		//
		// We don't handle the case of a path starting with a non-ASCII character,
		// in which case the "drive letter" might be multiple bytes long.
		return 2

	case len(path) == 0 || !IsPathSeparator(path[0]):
		// Path does not have a volume component.
		return 0

	case pathHasPrefixFold(path, `\\.\UNC`):
		// We're going to treat the UNC host and share as part of the volume
		// prefix for historical reasons, but this isn't really principled;
		// Windows's own GetFullPathName will happily remove the first
		// component of the path in this space, converting
		// \\.\unc\a\b\..\c into \\.\unc\a\c.
		return uncLen(path, len(`\\.\UNC\`))

	case pathHasPrefixFold(path, `\\.`) ||
		pathHasPrefixFold(path, `\\?`) || pathHasPrefixFold(path, `\??`):
		// Path starts with \\.\, and is a Local Device path; or
		// path starts with \\?\ or \??\ and is a Root Local Device path.
		//
		// We treat the next component after the \\.\ prefix as
		// part of the volume name, which means Clean(`\\?\c:\`)
		// won't remove the trailing \. (See #64028.)
		if len(path) == 3 {
			return 3 // exactly \\.
		}
		_, rest, ok := cutPath(path[4:])
		if !ok {
			return len(path)
		}
		return len(path) - len(rest) - 1

	case len(path) >= 2 && IsPathSeparator(path[1]):
		// Path starts with \\, and is a UNC path.
		return uncLen(path, 2)
	}
	return 0
}

// pathHasPrefixFold tests whether the path s begins with prefix,
// ignoring case and treating all path separators as equivalent.
// If s is longer than prefix, then s[len(prefix)] must be a path separator.
func pathHasPrefixFold(s, prefix string) bool {
	if len(s) < len(prefix) {
		return false
	}
	for i := 0; i < len(prefix); i++ {
		if IsPathSeparator(prefix[i]) {
			if !IsPathSeparator(s[i]) {
				return false
			}
		} else if toUpper(prefix[i]) != toUpper(s[i]) {
			return false
		}
	}
	if len(s) > len(prefix) && !IsPathSeparator(s[len(prefix)]) {
		return false
	}
	return true
}

// uncLen returns the length of the volume prefix of a UNC path.
// prefixLen is the prefix prior to the start of the UNC host;
// for example, for "//host/share", the prefixLen is len("//")==2.
func uncLen(path string, prefixLen int) int {
	count := 0
	for i := prefixLen; i < len(path); i++ {
		if IsPathSeparator(path[i]) {
			count++
			if count == 2 {
				return i
			}
		}
	}
	return len(path)
}

// cutPath slices path around the first path separator.
func cutPath(path string) (before, after string, found bool) {
	for i := range path {
		if IsPathSeparator(path[i]) {
			return path[:i], path[i+1:], true
		}
	}
	return path, "", false
}

// isUNC reports whether path is a UNC path.
func isUNC(path string) bool {
	return len(path) > 1 && IsPathSeparator(path[0]) && IsPathSeparator(path[1])
}

// postClean adjusts the results of Clean to avoid turning a relative path
// into an absolute or rooted one.
func postClean(out *lazybuf) {
	if out.volLen != 0 || out.buf == nil {
		return
	}
	// If a ':' appears in the path element at the start of a path,
	// insert a .\ at the beginning to avoid converting relative paths
	// like a/../c: into c:.
	for _, c := range out.buf {
		if IsPathSeparator(c) {
			break
		}
		if c == ':' {
			out.prepend('.', Separator)
			return
		}
	}
	// If a path begins with \??\, insert a \. at the beginning
	// to avoid converting paths like \a\..\??\c:\x into \??\c:\x
	// (equivalent to c:\x).
	if len(out.buf) >= 3 && IsPathSeparator(out.buf[0]) && out.buf[1] == '?' && out.buf[2] == '?' {
		out.prepend(Separator, '.')
	}
}
