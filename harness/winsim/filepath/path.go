// Copyright 2024 The Go Authors. All rights reserved.
// Use of this source code is governed by a BSD-style
// license that can be found in the LICENSE file.

// Package filepathlite implements a subset of path/filepath,
// only using packages which may be imported by "os".
//
// Tests for these functions are in path/filepath.
package filepath

import (
	"errors"
	"strings"
	"io/fs"
	"slices"
)

var errInvalidPath = errors.New("invalid path")

// A lazybuf is a lazily constructed path buffer.
// It supports append, reading previously appended bytes,
// and retrieving the final string. It does not allocate a buffer
// to hold the output until that output diverges from s.
type lazybuf struct {
	path       string
	buf        []byte
	w          int
	volAndPath string
	volLen     int
}

func (b *lazybuf) index(i int) byte {
	if b.buf != nil {
		return b.buf[i]
	}
	return b.path[i]
}

func (b *lazybuf) append(c byte) {
	if b.buf == nil {
		if b.w < len(b.path) && b.path[b.w] == c {
			b.w++
			return
		}
		b.buf = make([]byte, len(b.path))
		copy(b.buf, b.path[:b.w])
	}
	b.buf[b.w] = c
	b.w++
}

func (b *lazybuf) prepend(prefix ...byte) {
	b.buf = slices.Insert(b.buf, 0, prefix...)
	b.w += len(prefix)
}

func (b *lazybuf) string() string {
	if b.buf == nil {
		return b.volAndPath[:b.volLen+b.w]
	}
	return b.volAndPath[:b.volLen] + string(b.buf[:b.w])
}

// Clean is filepath.Clean.
func Clean(path string) string {
	originalPath := path
	volLen := volumeNameLen(path)
	path = path[volLen:]
	if path == "" {
		if volLen > 1 && IsPathSeparator(originalPath[0]) && IsPathSeparator(originalPath[1]) {
			// should be UNC
			return FromSlash(originalPath)
		}
		return originalPath + "."
	}
	rooted := IsPathSeparator(path[0])

	// Invariants:
	//	reading from path; r is index of next byte to process.
	//	writing to buf; w is index of next byte to write.
	//	dotdot is index in buf where .. must stop, either because
	//		it is the leading slash or it is a leading ../../.. prefix.
	n := len(path)
	out := lazybuf{path: path, volAndPath: originalPath, volLen: volLen}
	r, dotdot := 0, 0
	if rooted {
		out.append(Separator)
		r, dotdot = 1, 1
	}

	for r < n {
		switch {
		case IsPathSeparator(path[r]):
			// empty path element
			r++
		case path[r] == '.' && (r+1 == n || IsPathSeparator(path[r+1])):
			// . element
			r++
		case path[r] == '.' && path[r+1] == '.' && (r+2 == n || IsPathSeparator(path[r+2])):
			// .. element: remove to last separator
			r += 2
			switch {
			case out.w > dotdot:
				// can backtrack
				out.w--
				for out.w > dotdot && !IsPathSeparator(out.index(out.w)) {
					out.w--
				}
			case !rooted:
				// cannot backtrack, but not rooted, so append .. element.
				if out.w > 0 {
					out.append(Separator)
				}
				out.append('.')
				out.append('.')
				dotdot = out.w
			}
		default:
			// real path element.
			// add slash if needed
			if rooted && out.w != 1 || !rooted && out.w != 0 {
				out.append(Separator)
			}
			// copy element
			for ; r < n && !IsPathSeparator(path[r]); r++ {
				out.append(path[r])
			}
		}
	}

	// Turn empty string into "."
	if out.w == 0 {
		out.append('.')
	}

	postClean(&out) // avoid creating absolute paths on Windows
	return FromSlash(out.string())
}

// IsLocal is filepath.IsLocal.
func IsLocal(path string) bool {
	return isLocal(path)
}

func unixIsLocal(path string) bool {
	if IsAbs(path) || path == "" {
		return false
	}
	hasDots := false
	for p := path; p != ""; {
		var part string
		part, p, _ = strings.Cut(p, "/")
		if part == "." || part == ".." {
			hasDots = true
			break
		}
	}
	if hasDots {
		path = Clean(path)
	}
	if path == ".." || strings.HasPrefix(path, "../") {
		return false
	}
	return true
}

// Localize is filepath.Localize.
func Localize(path string) (string, error) {
	if !fs.ValidPath(path) {
		return "", errInvalidPath
	}
	return localize(path)
}

// ToSlash is filepath.ToSlash.
func ToSlash(path string) string {
	if Separator == '/' {
		return path
	}
	return replaceStringByte(path, Separator, '/')
}

// FromSlash is filepath.ToSlash.
func FromSlash(path string) string {
	if Separator == '/' {
		return path
	}
	return replaceStringByte(path, '/', Separator)
}

func replaceStringByte(s string, old, new byte) string {
	if strings.IndexByte(s, old) == -1 {
		return s
	}
	n := []byte(s)
	for i := range n {
		if n[i] == old {
			n[i] = new
		}
	}
	return string(n)
}

// Split is filepath.Split.
func Split(path string) (dir, file string) {
	vol := VolumeName(path)
	i := len(path) - 1
	for i >= len(vol) && !IsPathSeparator(path[i]) {
		i--
	}
	return path[:i+1], path[i+1:]
}

// Ext is filepath.Ext.
func Ext(path string) string {
	for i := len(path) - 1; i >= 0 && !IsPathSeparator(path[i]); i-- {
		if path[i] == '.' {
			return path[i:]
		}
	}
	return ""
}

// Base is filepath.Base.
func Base(path string) string {
	if path == "" {
		return "."
	}
	// Strip trailing slashes.
	for len(path) > 0 && IsPathSeparator(path[len(path)-1]) {
		path = path[0 : len(path)-1]
	}
	// Throw away volume name
	path = path[len(VolumeName(path)):]
	// Find the last element
	i := len(path) - 1
	for i >= 0 && !IsPathSeparator(path[i]) {
		i--
	}
	if i >= 0 {
		path = path[i+1:]
	}
	// If empty now, it had only slashes.
	if path == "" {
		return string(Separator)
	}
	return path
}

// Dir is filepath.Dir.
func Dir(path string) string {
	vol := VolumeName(path)
	i := len(path) - 1
	for i >= len(vol) && !IsPathSeparator(path[i]) {
		i--
	}
	dir := Clean(path[len(vol) : i+1])
	if dir == "." && len(vol) > 2 {
		// must be UNC
		return vol
	}
	return vol + dir
}

// VolumeName is filepath.VolumeName.
func VolumeName(path string) string {
	return FromSlash(path[:volumeNameLen(path)])
}

// VolumeNameLen returns the length of the leading volume name on Windows.
// It returns 0 elsewhere.
func VolumeNameLen(path string) int {
	return volumeNameLen(path)
}
