// C09: concurrent execution of a template set is race-free and equals sequential execution.
// Built with -race: a race report stops the process (GORACE=halt_on_error=1); the case being run is written to
// current_case.json in the working directory before its trials, so that it is the replay unit.
package c09

import (
	"encoding/json"
	"fmt"
	"os"
	"runtime"
	"sort"
	"strconv"
	"strings"
	"sync"
	"testing"

	"pgregory.net/rapid"

	"verif/evid"
	"verif/gen/hist"
)

func TestMain(m *testing.M) { evid.Main(m, "C09") }

type Case struct {
	H      hist.History `json:"history"` // definition ops only
	Calls  []hist.Op    `json:"calls"`
	Assign []int        `json:"assign"` // goroutine of each call
	Procs  int          `json:"gomaxprocs"`
}

func trials() int {
	if n, _ := strconv.Atoi(os.Getenv("VERIF_C09_TRIALS")); n > 0 {
		return n
	}
	if evid.Tier() == "thorough" {
		return 200
	}
	return 20
}

func same(a, b hist.Result) bool {
	if a.Out != b.Out || (a.Err == "") != (b.Err == "") || a.Class != b.Class || a.Nil != b.Nil || a.ZeroHTML != b.ZeroHTML {
		return false
	}
	return strings.Join(a.Names, ",") == strings.Join(b.Names, ",")
}

func definedNames(s string) []string {
	// "; defined templates are: "a", "b""
	var out []string
	for _, f := range strings.Split(s, "\"") {
		if f != "" && !strings.Contains(f, " ") && !strings.Contains(f, ",") && !strings.Contains(f, ";") {
			out = append(out, f)
		}
	}
	sort.Strings(out)
	return out
}

func check(c Case) evid.Outcome {
	h := &c.H
	o := evid.Outcome{}
	if len(c.Calls) == 0 || len(c.Assign) != len(c.Calls) {
		o.Skip = true
		return o
	}
	// expected: every call alone on a fresh identical set
	defs := h.Ops
	expected := make([]hist.Result, len(c.Calls))
	for i, op := range c.Calls {
		expected[i] = hist.Fresh(h, defs, op)
	}
	allNames := definedNames(hist.Fresh(h, defs, hist.Op{Kind: "defined"}).Defined)
	if b, err := json.Marshal(evid.ReplayFile{Property: "C09", Prop: "concurrent", Msg: "case running when the process stopped (data race reported by the race detector)", Case: mustJSON(c)}); err == nil {
		os.WriteFile("current_case.json", b, 0o644)
	}
	ng := 0
	for _, g := range c.Assign {
		if g+1 > ng {
			ng = g + 1
		}
	}
	old := runtime.GOMAXPROCS(c.Procs)
	defer runtime.GOMAXPROCS(old)
	firstExecs := map[string]bool{}
	for _, op := range c.Calls {
		if hist.IsExec(op.Kind) {
			firstExecs[op.Target+"|"+op.Via] = true
		}
	}
	o.NonTrivial = ng >= 2 && len(firstExecs) >= 2
	for trial := 0; trial < trials(); trial++ {
		r := hist.NewRunner(h)
		for _, d := range defs {
			r.StepNoWatch(d)
		}
		results := make([]hist.Result, len(c.Calls))
		var wg sync.WaitGroup
		start := make(chan struct{})
		for g := 0; g < ng; g++ {
			wg.Add(1)
			go func(g int) {
				defer wg.Done()
				<-start
				for i, op := range c.Calls {
					if c.Assign[i] == g {
						results[i] = r.StepNoWatch(op)
					}
				}
			}(g)
		}
		close(start)
		wg.Wait()
		r.Close()
		for i, op := range c.Calls {
			res := results[i]
			if res.Panic != "" {
				return evid.Viol("trial %d: call %d %+v panicked: %s\ncase: %+v", trial, i, op, res.Panic, c)
			}
			if op.Kind == "defined" {
				// the listing omits templates whose analysis already failed: any subset of the defined names that a
				// sequential order could give is acceptable; it must not invent names
				for _, n := range definedNames(res.Defined) {
					if strings.Contains(n, "$htmltemplate_") {
						continue // context-specific copies added by an earlier commit (also listed sequentially)
					}
					if k := sort.SearchStrings(allNames, n); k >= len(allNames) || allNames[k] != n {
						return evid.Viol("trial %d: DefinedTemplates lists %q which is not defined\ncase: %+v", trial, n, c)
					}
				}
				continue
			}
			if !same(res, expected[i]) {
				return evid.Viol("trial %d: call %d %+v returned (out=%q err=%q class=%s nil=%v names=%v) when run concurrently, but (out=%q err=%q class=%s nil=%v names=%v) when run alone on a fresh identical set\ncase: %+v", trial, i, op, res.Out, res.Err, res.Class, res.Nil, res.Names, expected[i].Out, expected[i].Err, expected[i].Class, expected[i].Nil, expected[i].Names, c)
			}
		}
	}
	evid.Label("concurrent", "trials", int64(trials()))
	return o
}

func mustJSON(v interface{}) json.RawMessage {
	b, _ := json.Marshal(v)
	return b
}

func gen(t *rapid.T) Case {
	// definitions: the definition prefix of a generated history (no executions)
	h := hist.Gen(t, hist.Options{MaxOps: 1, MixedHelpers: rapid.Bool().Draw(t, "mixedh"), BadMembers: rapid.IntRange(0, 2).Draw(t, "bad") == 0, RuntimeBad: true, AttrHelpers: true})
	var defs []hist.Op
	for _, op := range h.Ops {
		if hist.IsDef(op.Kind) {
			defs = append(defs, op)
		}
	}
	h.Ops = defs
	all := hist.DefinedByOps(defs, h.RootName)
	// (helpers are executed directly as well: since F-rederive a text-context use of a helper that members need in
	// an attribute does not make the sequential results order dependent any more)
	var names []string
	for _, n := range all {
		if n != "rec" && n != "ry" && n != "rz" {
			names = append(names, n)
		}
	}
	if len(names) == 0 {
		names = all
	}
	c := Case{H: *h, Procs: rapid.SampledFrom([]int{2, 4, 16}).Draw(t, "procs")}
	ng := rapid.IntRange(2, 8).Draw(t, "goroutines")
	nc := rapid.IntRange(4, 24).Draw(t, "calls")
	for i := 0; i < nc; i++ {
		name := rapid.SampledFrom(names).Draw(t, "name")
		var op hist.Op
		switch k := rapid.IntRange(0, 9).Draw(t, "kind"); {
		case k <= 3:
			op = hist.Op{Kind: "exectmpl", Target: name, Data: hist.DrawData(t)}
		case k == 4:
			op = hist.Op{Kind: "exec", Via: name, Data: hist.DrawData(t)}
		case k == 5:
			op = hist.Op{Kind: "exectmplhtml", Target: name, Data: hist.DrawData(t)}
		case k == 6:
			op = hist.Op{Kind: "exechtml", Via: name, Data: hist.DrawData(t)}
		case k == 7:
			op = hist.Op{Kind: rapid.SampledFrom([]string{"lookup", "templates", "name"}).Draw(t, "ro"), Via: "", Target: name}
		default:
			op = hist.Op{Kind: "defined", Via: rapid.SampledFrom(append([]string{""}, names...)).Draw(t, "dvia")}
		}
		c.Calls = append(c.Calls, op)
		c.Assign = append(c.Assign, rapid.IntRange(0, ng-1).Draw(t, "g"))
	}
	return c
}

func TestPropConcurrent(t *testing.T) { evid.RunProp(t, "concurrent", 1, gen, check) }

// TestReplay re-runs a stored case many times (schedule dependent).
func TestReplay(t *testing.T) {
	os.Setenv("VERIF_C09_TRIALS", "300")
	evid.Replay(t, evid.R("concurrent", check))
	_ = fmt.Sprint
}
