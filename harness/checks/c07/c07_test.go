// C07: definitions freeze at first execution; clones are fully isolated.
package c07

import (
	"fmt"
	"strings"
	"testing"

	"pgregory.net/rapid"

	"verif/evid"
	"verif/gen/hist"
)

func TestMain(m *testing.M) { evid.Main(m, "C07") }

type Case struct {
	H hist.History `json:"history"`
}

func nameOf(h *hist.History, op hist.Op) string {
	if op.Kind == "exectmpl" || op.Kind == "exectmplhtml" {
		return op.Target
	}
	if op.Via != "" {
		return op.Via
	}
	return h.RootName
}

func same(a, b hist.Result) bool {
	return a.Out == b.Out && (a.Err == "") == (b.Err == "") && a.Class == b.Class && a.Nil == b.Nil
}

func show(r hist.Result) string {
	return fmt.Sprintf("(out=%q err=%q class=%s nil=%v)", r.Out, r.Err, r.Class, r.Nil)
}

func check(c Case) evid.Outcome {
	h := &c.H
	results, r := hist.Run(h, 0)
	defer r.Close()
	o := evid.Outcome{}
	o.Labels = append(o.Labels, h.Flags...)
	frozen := map[int]int{} // set -> step of the first execution
	first := map[string]hist.Result{}
	firstAt := map[string]int{}
	execSets := map[int]bool{}
	nsets := 1
	for i, op := range h.Ops {
		res := results[i]
		if res.Panic != "" {
			return evid.Viol("step %d %+v panicked: %s\nhistory: %+v", i, op, res.Panic, h.Ops)
		}
		if op.Kind == "new" && !res.Nil && !hist.Frozen(h, results, i) {
			// New(existing name) is the documented redefinition (the template is reset): results recorded for this
			// set are no longer the reference for later calls; the fresh-set replay covers it. (On a set that has
			// been executed New changes nothing: F-newfrozen.)
			for k := range first {
				if strings.HasPrefix(k, fmt.Sprint(op.Set, "|")) {
					delete(first, k)
				}
			}
		}
		switch {
		case op.Kind == "clone":
			if !res.Nil {
				if at, ok := frozen[op.Set]; ok && res.Err == "" {
					return evid.Viol("step %d: Clone succeeded although a template of the set was executed at step %d\nhistory: %+v", i, at, h.Ops)
				}
				nsets++
				o.Labels = append(o.Labels, "clone")
			}
		case hist.IsDef(op.Kind) && op.Kind != "new" && !res.Nil:
			if at, ok := frozen[op.Set]; ok {
				o.NonTrivial = true
				o.Labels = append(o.Labels, "parse-after-execute:"+op.Kind)
				if res.Err == "" {
					return evid.Viol("step %d %+v succeeded although the set was executed at step %d (definitions must be frozen)\nhistory: %+v", i, op, at, h.Ops)
				}
			}
		case hist.IsExec(op.Kind) && !res.Nil:
			if _, ok := frozen[op.Set]; !ok {
				frozen[op.Set] = i
			}
			execSets[op.Set] = true
			name := nameOf(h, op)
			key := fmt.Sprint(op.Set, "|", name, "|", op.Data.Key(), "|", strings.HasSuffix(op.Kind, "html"))
			if prev, ok := first[key]; ok {
				if !same(prev, res) {
					return evid.Viol("step %d repeats the call of step %d (set %d, template %q) but the output of the set changed: %s vs %s\nhistory: %+v", i, firstAt[key], op.Set, name, show(prev), show(res), h.Ops)
				}
			} else {
				first[key], firstAt[key] = res, i
			}
			// isolation: equals the same call on a fresh set holding only this lineage's definitions
			fop := op
			if fop.Via == "" {
				fop.Via = hist.RootVia(h, results, op.Set)
			}
			fresh := hist.Fresh(h, hist.Lineage(h, results, i), fop)
			if !same(fresh, res) {
				return evid.Viol("step %d %+v (set %d, template %q): result %s differs from the same call on a fresh set built from this lineage's own definitions: %s\nhistory: %+v", i, op, op.Set, name, show(res), show(fresh), h.Ops)
			}
		}
	}
	if len(execSets) >= 2 {
		o.NonTrivial = true
		o.Labels = append(o.Labels, "clone-and-origin-executed")
	}
	if len(execSets) == 0 {
		o.Skip = true
	}
	return o
}

func gen(t *rapid.T) Case {
	return Case{*hist.Gen(t, hist.Options{CSP: true, MaxOps: 16, MixedHelpers: rapid.Bool().Draw(t, "mixedh"), BadMembers: rapid.IntRange(0, 3).Draw(t, "bad") == 0, Unbalanced: rapid.IntRange(0, 3).Draw(t, "unbalanced") == 0, ReadOnlyOps: true, ParseAfter: true, Clones: true, FileOps: true})}
}

func TestPropFreeze(t *testing.T) { evid.RunProp(t, "freeze", 1, gen, check) }

// TestPropCloneCtx: directed family. A helper (text only, or with an action) is needed in one context by a member
// executed on the clone and in another context by a member executed on the original (both assignments, both
// orders, clone taken from the root or from a member handle). Contextual rewriting on one side must never show on
// the other: each result equals the same call on a fresh set.
func TestPropCloneCtx(t *testing.T) {
	helpers := []string{`1<2 &amp; a&b`, `a<b>c</b>`, `x < y`, `<`, `{{.V}}`, `<i>{{.V}}</i>`, `v&amp;{{.V}}`}
	callers := []string{`<p>{{template "hx" .}}</p>`, `<p title="{{template "hx" .}}">x</p>`, `<textarea>{{template "hx" .}}</textarea>`, `<script>var s = 1;{{template "hy" .}}</script>`, `<a href="/p?q={{template "hx" .}}">y</a>`, `<title>{{template "hx" .}}</title>`, `{{template "hx" .}}`}
	d := &hist.DataSpec{V: "a<b&c\"", U: "/u", C: true, L: 1}
	var all []Case
	for _, hb := range helpers {
		for i, c1 := range callers {
			for j, c2 := range callers {
				if i == j {
					continue
				}
				for _, via := range []string{"", "m1"} {
					for _, cloneFirst := range []bool{true, false} {
						text := `{{define "hx"}}` + hb + `{{end}}{{define "hy"}}f(1<2);{{end}}{{define "m1"}}` + c1 + `{{end}}{{define "m2"}}` + c2 + `{{end}}`
						h := hist.History{RootName: "root", Ops: []hist.Op{{Kind: "parse", Text: text}, {Kind: "clone", Via: via}}}
						e1 := hist.Op{Kind: "exectmpl", Set: 1, Target: "m1", Data: d}
						e2 := hist.Op{Kind: "exectmpl", Set: 0, Target: "m2", Data: d}
						if cloneFirst {
							h.Ops = append(h.Ops, e1, e2, e1, e2)
						} else {
							h.Ops = append(h.Ops, e2, e1, e2, e1)
						}
						all = append(all, Case{h})
					}
				}
			}
		}
	}
	shard, n := evid.Shard()
	i := shard
	evid.RunEnum(t, "clonectx", func() (Case, bool) {
		if i >= len(all) {
			return Case{}, false
		}
		c := all[i]
		i += n
		return c, true
	}, check)
	evid.SetExhaustive("clonectx")
}

// FuzzFreeze: coverage-guided exploration of the same generator (rapid.MakeFuzz turns the fuzzer's bytes into draws).
func FuzzFreeze(f *testing.F) {
	f.Fuzz(rapid.MakeFuzz(func(t *rapid.T) {
		c := gen(t)
		o := check(c)
		if o.Violation != "" && !(o.Finding != "" && evid.IsKnown(o.Finding)) {
			evid.Record("fuzzfreeze", c, o)
			t.Fatalf("%s replay=%s", o.Violation, evid.SaveFailure("fuzzfreeze"))
		}
	}))
}

func TestReplay(t *testing.T) {
	evid.Replay(t, evid.R("fuzzfreeze", check), evid.R("freeze", check), evid.R("clonectx", check))
}
