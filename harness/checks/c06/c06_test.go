// C06: execution results depend only on definitions, name and data, not on history.
package c06

import (
	"fmt"
	"strings"
	"testing"

	"pgregory.net/rapid"

	"verif/evid"
	"verif/gen/hist"
)

func TestMain(m *testing.M) { evid.Main(m, "C06") }

type Case struct {
	H hist.History `json:"history"`
}

func nameOf(h *hist.History, op hist.Op) string {
	if op.Kind == "exectmpl" || op.Kind == "exectmplhtml" {
		return op.Target
	}
	if op.Via != "" {
		return op.Via
	}
	return h.RootName
}

func same(a, b hist.Result) bool {
	return a.Out == b.Out && (a.Err == "") == (b.Err == "") && a.Class == b.Class && a.Nil == b.Nil && a.Panic == "" && b.Panic == ""
}

func show(r hist.Result) string {
	return fmt.Sprintf("(out=%q err=%q class=%s nil=%v panic=%q)", r.Out, r.Err, r.Class, r.Nil, r.Panic)
}

func check(c Case) evid.Outcome      { return check1(c, false) }
func checkMixed(c Case) evid.Outcome { return check1(c, true) }

func check1(c Case, mixed bool) evid.Outcome {
	h := &c.H
	results, r := hist.Run(h, 0)
	defer r.Close()
	o := evid.Outcome{}
	o.Labels = append(o.Labels, h.Flags...)
	first := map[string]hist.Result{}
	firstAt := map[string]int{}
	targets := map[string]bool{}
	execs := 0
	for i, op := range h.Ops {
		res := results[i]
		if res.Panic != "" {
			return evid.Viol("step %d %+v panicked: %s\nhistory: %+v", i, op, res.Panic, h.Ops)
		}
		if op.Kind == "new" && !res.Nil && !hist.Frozen(h, results, i) {
			// New(existing name) is the documented redefinition (the template is reset): results recorded for this
			// set are no longer the reference for later calls; the fresh-set replay covers it. (On a set that has
			// been executed New changes nothing: F-newfrozen.)
			for k := range first {
				if strings.HasPrefix(k, fmt.Sprint(op.Set, "|")) {
					delete(first, k)
				}
			}
		}
		if !hist.IsExec(op.Kind) || res.Nil {
			continue
		}
		execs++
		name := nameOf(h, op)
		targets[fmt.Sprint(op.Set, "|", name)] = true
		html := strings.HasSuffix(op.Kind, "html")
		key := fmt.Sprint(op.Set, "|", name, "|", op.Data.Key(), "|", html)
		// (a) repeating the call gives the same result
		if prev, ok := first[key]; ok {
			o.NonTrivial = true
			if !same(prev, res) {
				v := evid.Viol("step %d repeats the call of step %d (template %q, same data) but the result differs: %s vs %s\nhistory: %+v", i, firstAt[key], name, show(prev), show(res), h.Ops)
				return v
			}
		} else {
			first[key], firstAt[key] = res, i
		}
		// (b) the same single call on a fresh set built from the same definitions
		fop := op
		if fop.Via == "" {
			fop.Via = hist.RootVia(h, results, op.Set)
		}
		fresh := hist.Fresh(h, hist.Lineage(h, results, i), fop)
		if !same(fresh, res) {
			v := evid.Viol("step %d %+v (template %q): result %s differs from the same call on a freshly built set with the same definitions: %s\nhistory: %+v", i, op, name, show(res), show(fresh), h.Ops)
			return v
		}
	}
	if len(targets) >= 2 {
		o.NonTrivial = true
	}
	if execs == 0 {
		o.Skip = true
	}
	return o
}

func gen(t *rapid.T) Case {
	return Case{*hist.Gen(t, hist.Options{CSP: true, MaxOps: 12, MixedHelpers: rapid.Bool().Draw(t, "mixedh"), BadMembers: rapid.IntRange(0, 2).Draw(t, "bad") == 0, RuntimeBad: true, Unbalanced: rapid.IntRange(0, 2).Draw(t, "unbalanced") == 0, ReadOnlyOps: true, ParseAfter: true, Clones: rapid.IntRange(0, 3).Draw(t, "clones") == 0})}
}

// genMixed: the K-rederive zone (a helper needed in text and in attribute contexts).
func genMixed(t *rapid.T) Case {
	return Case{*hist.Gen(t, hist.Options{MaxOps: 8, MixedHelpers: true})}
}

func TestPropHistory(t *testing.T) { evid.RunProp(t, "history", 1, gen, check) }
func TestPropMixed(t *testing.T)   { evid.RunProp(t, "mixed", 0.25, genMixed, checkMixed) }

// FuzzHistory: coverage-guided exploration of the same generator (rapid.MakeFuzz turns the fuzzer's bytes into draws).
func FuzzHistory(f *testing.F) {
	f.Fuzz(rapid.MakeFuzz(func(t *rapid.T) {
		c := gen(t)
		o := check(c)
		if o.Violation != "" && !(o.Finding != "" && evid.IsKnown(o.Finding)) {
			evid.Record("fuzzhistory", c, o)
			t.Fatalf("%s replay=%s", o.Violation, evid.SaveFailure("fuzzhistory"))
		}
	}))
}

func TestReplay(t *testing.T) {
	evid.Replay(t, evid.R("fuzzhistory", check), evid.R("history", check), evid.R("mixed", checkMixed))
}
