// C01: template markup structure is never altered by untrusted data.
package c01

import (
	"bytes"
	"fmt"
	"strings"
	"testing"
	texttemplate "text/template"

	"pgregory.net/rapid"

	"verif/evid"
	"verif/gen/hist"
	"verif/gen/tmpl"
	"verif/oracle/htmltok"
	"verif/tx"
)

func TestMain(m *testing.M) { evid.Main(m, "C01") }

type Case struct {
	Prog tmpl.Prog `json:"prog"`
	Data tmpl.Data `json:"data"`
}

type skel struct {
	toks  []string
	final htmltok.Final
}

func skeleton(out string, scripting bool) skel { return skeletonOpt(out, scripting, false) }

// skeletonOpt: noSwitch models foreign content (svg / math), where the tokenizer never leaves the data state after a
// start tag and CDATA sections exist.
func skeletonOpt(out string, scripting, noSwitch bool) skel {
	r := htmltok.Tokenize([]byte(out), htmltok.Options{Scripting: scripting, NoStateSwitch: noSwitch})
	f := r.Final
	// a dangling tag-open at the very end ("...<") is normalised to the data state
	if f.State == "TagOpen" {
		f.State = "Data"
	}
	// inside an unfinished DOCTYPE every sub-state is left by the same character ('>'): one state
	if strings.Contains(f.State, "DOCTYPE") {
		f.State = "DOCTYPE"
	}
	// text tokens are not structure: the "#rawtext"-style markers only say that some text was present
	var toks []string
	for _, t := range htmltok.Skeleton(r) {
		if !strings.HasPrefix(t, "#") {
			toks = append(toks, t)
		}
	}
	return skel{toks, f}
}

func (s skel) String() string { return strings.Join(s.toks, "") + fmt.Sprintf(" final=%+v", s.final) }

func dropComments(s skel) skel {
	var out []string
	for _, t := range s.toks {
		if t != "<!---->" {
			out = append(out, t)
		}
	}
	return skel{out, s.final}
}

func hasComment(s skel) bool {
	for _, t := range s.toks {
		if t == "<!---->" {
			return true
		}
	}
	return false
}

func hasFlag(flags []string, f string) bool {
	for _, x := range flags {
		if x == f {
			return true
		}
	}
	return false
}

func hostileByte(s string) bool {
	for i := 0; i < len(s); i++ {
		c := s[i]
		if c <= 0x20 || c >= 0x80 || strings.IndexByte("<>\"'&`=/", c) >= 0 {
			return true
		}
	}
	return false
}

func check(c Case) evid.Outcome {
	text := c.Prog.Text()
	o := evid.Outcome{Key: text + "\x00" + fmt.Sprint(c.Data)}
	o.Labels = append(o.Labels, c.Prog.Flags...)
	t, perr := tx.Parse(text)
	if perr != nil {
		o.Skip = true
		o.Labels = append(o.Labels, "parse-error")
		return o
	}
	out, err := tx.Exec(t, c.Data.Map())
	if err != nil {
		o.Skip = true
		if strings.Contains(err.Error(), "error calling") {
			o.Labels = append(o.Labels, "runtime-sanitizer-error")
		} else {
			o.Labels = append(o.Labels, "rejected")
		}
		return o
	}
	inert := c.Data.Inert(c.Prog.Fields)
	t2, _ := tx.Parse(text)
	outI, errI := tx.Exec(t2, inert.Map())
	if errI != nil {
		o.Skip = true
		o.Labels = append(o.Labels, "inert-rendering-refused")
		return o
	}
	rt, rerr := texttemplate.New("main").Parse(text)
	if rerr != nil {
		o.Skip = true
		return o
	}
	// the author relation is judged on renderings in which trusted HTML values carry no markup of their own
	ainert := c.Data.AuthorInert(c.Prog.Fields)
	var rb bytes.Buffer
	if err := rt.Execute(&rb, ainert.Map()); err != nil {
		o.Skip = true
		o.Labels = append(o.Labels, "reference-error")
		return o
	}
	outA := outI
	if fmt.Sprint(ainert) != fmt.Sprint(inert) {
		t3, _ := tx.Parse(text)
		var errA error
		outA, errA = tx.Exec(t3, ainert.Map())
		if errA != nil {
			o.Skip = true
			o.Labels = append(o.Labels, "inert-rendering-refused")
			return o
		}
	}
	for _, v := range c.Data.V {
		if v.Type == "" && hostileByte(string(v.S)) {
			o.NonTrivial = true
		}
	}
	if hasFlag(c.Prog.Flags, "zone:K-foreign") {
		// foreign content: data independence must also hold when the tokenizer never switches state
		sh, si := skeletonOpt(out, true, true), skeletonOpt(outI, true, true)
		if sh.String() != si.String() {
			return evid.Viol("data changed the markup structure under the foreign-content reading (no tokenizer state switch)\ntemplate: %q\ndata: %+v\noutput:       %q\ninert output: %q\nskeleton:       %s\ninert skeleton: %s", text, c.Data, out, outI, sh, si)
		}
	}
	for _, scripting := range []bool{false, true} {
		sh, si := skeleton(out, scripting), skeleton(outI, scripting)
		// relation 2: data independence (both tokenizer configurations)
		if sh.String() != si.String() {
			return evid.Viol("data changed the markup structure (scripting=%v)\ntemplate: %q\ndata: %+v\noutput:       %q\ninert output: %q\nskeleton:       %s\ninert skeleton: %s", scripting, text, c.Data, out, outI, sh, si)
		}
		if hasComment(sh) {
			v := evid.Viol("output contains a comment token (scripting=%v)\ntemplate: %q\ndata: %+v\noutput: %q", scripting, text, c.Data, out)
			if hasFlag(c.Prog.Flags, "zone:K-endsplit") {
				// the engine believes to be inside the special element still and does not strip the comment
				v.Finding = "K-endsplit"
			}
			return v
		}
	}
	// relation 1: the author's markup (reference reading: scripting disabled)
	si, sr := skeleton(outA, false), dropComments(skeleton(rb.String(), false))
	if si.String() != sr.String() {
		v := evid.Viol("engine output does not have the structure the author wrote\ntemplate: %q\ninert output: %q\nreference:    %q\nskeleton:           %s\nreference skeleton: %s", text, outA, rb.String(), si, sr)
		// known deviations of the author relation, each tied to the construct the generator itself flagged
		// (data independence and the no-comment rule above are enforced inside these zones as everywhere else)
		for _, z := range []string{"K-cmt", "K-rawnest", "K-bogus", "boundary-lt", "K-foreign", "K-endsplit"} {
			// (the construct flagged zone:K-tagname is still generated: since F-tagnamesep such templates are refused)
			if hasFlag(c.Prog.Flags, "zone:"+z) {
				v.Finding = z
				if z == "boundary-lt" {
					// not a finding: the author relation is not defined for this class (section 4, C01)
					o.Labels = append(o.Labels, "boundary-lt-author-relation-undefined")
					return o
				}
				break
			}
		}
		return v
	}
	if hasFlag(c.Prog.Flags, "zone:K-foreign") {
		// the author relation under the foreign-content reading
		fi, fr := skeletonOpt(outA, true, true), dropComments(skeletonOpt(rb.String(), true, true))
		if fi.String() != fr.String() {
			v := evid.Viol("engine output does not have the structure the author wrote under the foreign-content reading (svg / math)\ntemplate: %q\ninert output: %q\nreference:    %q\nskeleton:           %s\nreference skeleton: %s", text, outI, rb.String(), fi, fr)
			v.Finding = "K-foreign"
			return v
		}
	}
	o.Labels = append(o.Labels, "accepted")
	return o
}

func gen(t *rapid.T) Case {
	p := tmpl.Generate(t, tmpl.DefaultOptions)
	return Case{Prog: *p, Data: tmpl.Bind(t, p)}
}

// genZones: the same grammar plus the constructs of the known-deviation zones.
func genZones(t *rapid.T) Case {
	o := tmpl.DefaultOptions
	o.Zones = true
	p := tmpl.Generate(t, o)
	return Case{Prog: *p, Data: tmpl.Bind(t, p)}
}

func TestPropZones(t *testing.T) { evid.RunProp(t, "zones", 0.3, genZones, check) }

// genSplice: programs of the same grammar (smaller), then 1-3 template nodes spliced in at arbitrary positions of
// the static text, by preference inside tags.
func genSplice(t *rapid.T) Case {
	o := tmpl.DefaultOptions
	o.MaxDepth, o.MaxItems = 2, 3
	p := tmpl.Generate(t, o)
	switch rapid.IntRange(0, 2).Draw(t, "mutation") {
	case 0:
		tmpl.Splice(t, p, 3)
	case 1:
		// a balanced region (template nodes included) wrapped into a control structure or moved into a helper
		tmpl.Region(t, p)
	default:
		tmpl.Region(t, p)
		tmpl.Splice(t, p, 2)
	}
	return Case{Prog: *p, Data: tmpl.Bind(t, p)}
}

func TestPropSplice(t *testing.T) { evid.RunProp(t, "splice", 0.6, genSplice, check) }

func TestPropStructure(t *testing.T) { evid.RunProp(t, "structure", 1, gen, check) }

// ---------- sub-property "sets": data independence of every execution inside an API history ----------

type SetCase struct {
	H hist.History `json:"history"`
}

func genSet(t *rapid.T) SetCase {
	return SetCase{*hist.Gen(t, hist.Options{MaxOps: 10, MixedHelpers: rapid.Bool().Draw(t, "mixedh"), BadMembers: true, RuntimeBad: true, ParseAfter: true, Unbalanced: rapid.Bool().Draw(t, "unbalanced"), ReadOnlyOps: false, Clones: rapid.IntRange(0, 3).Draw(t, "clones") == 0})}
}

func inertHistory(h hist.History) hist.History {
	out := h
	out.Ops = append([]hist.Op{}, h.Ops...)
	for i, op := range out.Ops {
		if op.Data == nil {
			continue
		}
		d := *op.Data
		if d.Typ == "" && d.V != "" {
			d.V = tmpl.Placeholder
		}
		if d.U != "" {
			d.U = tmpl.Placeholder
		}
		out.Ops[i].Data = &d
	}
	return out
}

func checkSet(c SetCase) evid.Outcome {
	o := evid.Outcome{}
	rh, r1 := hist.Run(&c.H, 0)
	defer r1.Close()
	ih := inertHistory(c.H)
	ri, r2 := hist.Run(&ih, 0)
	defer r2.Close()
	for i, op := range c.H.Ops {
		if !hist.IsExec(op.Kind) || rh[i].Nil || rh[i].Panic != "" || i >= len(ri) {
			continue
		}
		if (rh[i].Err == "") != (ri[i].Err == "") {
			continue // run-time sanitizer verdicts may depend on the data; no claim
		}
		if op.Data != nil && op.Data.Typ == "" && hostileByte(string(op.Data.V)) {
			o.NonTrivial = true
		}
		for _, scripting := range []bool{false, true} {
			sh, si := skeleton(rh[i].Out, scripting), skeleton(ri[i].Out, scripting)
			if sh.String() != si.String() {
				return evid.Viol("step %d %+v: data changed the markup structure (scripting=%v)\noutput:       %q\ninert output: %q\nskeleton:       %s\ninert skeleton: %s\nhistory: %+v", i, op, scripting, rh[i].Out, ri[i].Out, sh, si, c.H.Ops)
			}
			if hasComment(sh) {
				return evid.Viol("step %d %+v: output contains a comment token: %q\nhistory: %+v", i, op, rh[i].Out, c.H.Ops)
			}
		}
	}
	return o
}

func TestPropSets(t *testing.T) { evid.RunProp(t, "sets", 0.25, genSet, checkSet) }

// FuzzStructure: coverage-guided exploration of the same generator (rapid.MakeFuzz turns the fuzzer's bytes into draws).
func FuzzStructure(f *testing.F) {
	f.Fuzz(rapid.MakeFuzz(func(t *rapid.T) {
		c := genZones(t)
		o := check(c)
		if o.Violation != "" && !(o.Finding != "" && evid.IsKnown(o.Finding)) {
			evid.Record("fuzzstructure", c, o)
			t.Fatalf("%s replay=%s", o.Violation, evid.SaveFailure("fuzzstructure"))
		}
	}))
}

// FuzzSplice: the same for programs with spliced-in template nodes.
func FuzzSplice(f *testing.F) {
	f.Fuzz(rapid.MakeFuzz(func(t *rapid.T) {
		c := genSplice(t)
		o := check(c)
		if o.Violation != "" && !(o.Finding != "" && evid.IsKnown(o.Finding)) {
			evid.Record("fuzzsplice", c, o)
			t.Fatalf("%s replay=%s", o.Violation, evid.SaveFailure("fuzzsplice"))
		}
	}))
}

func TestReplay(t *testing.T) {
	evid.Replay(t, evid.R("fuzzstructure", check), evid.R("fuzzsplice", check), evid.R("structure", check), evid.R("zones", check), evid.R("splice", check), evid.R("sets", checkSet))
}
