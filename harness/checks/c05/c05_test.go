// C05: templates that cannot be contextualized never produce output (sticky).
package c05

import (
	"fmt"
	"strings"
	"testing"

	"pgregory.net/rapid"

	"verif/evid"
	"verif/gen/hist"
)

func TestMain(m *testing.M) { evid.Main(m, "C05") }

type Case struct {
	H hist.History `json:"history"`
}

func nameOf(h *hist.History, op hist.Op) string {
	if op.Kind == "exectmpl" || op.Kind == "exectmplhtml" {
		return op.Target
	}
	if op.Via != "" {
		return op.Via
	}
	return h.RootName
}

func check(c Case) evid.Outcome {
	h := &c.H
	results, r := hist.Run(h, 0)
	defer r.Close()
	o := evid.Outcome{}
	o.Labels = append(o.Labels, h.Flags...)
	failed := map[string]int{} // set|name -> step of the first analysis failure
	execsBefore := 0
	rt := map[string]bool{}
	for _, n := range h.RuntimeBad {
		rt[n] = true
	}
	for i, op := range h.Ops {
		res := results[i]
		if res.Panic != "" {
			// total-API failures are C08's subject; here they also break "returns an error"
			return evid.Viol("step %d %+v panicked instead of returning an error: %s\nhistory: %+v", i, op, res.Panic, h.Ops)
		}
		// the body of a template whose analysis must fail never runs, whoever is executed
		for _, mk := range res.Marks {
			if cat, bad := h.Bad[mk]; bad && cat != "helper-nontext-end" {
				return evid.Viol("step %d %+v ran the body of %q (built to fail analysis: %s) - mark fired; result out=%q err=%q\nhistory: %+v", i, op, mk, h.Bad[mk], res.Out, res.Err, h.Ops)
			}
		}
		if !hist.IsExec(op.Kind) || res.Nil {
			continue
		}
		name := nameOf(h, op)
		key := fmt.Sprint(op.Set, "|", name)
		html := strings.HasSuffix(op.Kind, "html")
		cat, isBad := h.Bad[name]
		// (iii) ToHTML variants return the zero HTML whenever they return an error
		if html && res.Err != "" && !res.ZeroHTML {
			return evid.Viol("step %d %+v returned the error %q together with the non-zero HTML %q\nhistory: %+v", i, op, res.Err, res.Out, h.Ops)
		}
		if html && res.Err != "" && rt[name] {
			o.NonTrivial = true
			o.Labels = append(o.Labels, "tohtml-runtime-error")
		}
		// (i) analysis failures write nothing
		if res.Class == "analysis" && res.Out != "" {
			return evid.Viol("step %d %+v failed in analysis (%q) but wrote %q\nhistory: %+v", i, op, res.Err, res.Out, h.Ops)
		}
		if isBad {
			if res.Err == "" {
				return evid.Viol("step %d %+v executed %q, which is built to fail analysis (%s), without an error: out=%q\nhistory: %+v", i, op, name, cat, res.Out, h.Ops)
			}
			if res.Out != "" {
				return evid.Viol("step %d %+v on %q (built to fail analysis: %s) returned an error but wrote %q\nhistory: %+v", i, op, name, cat, res.Out, h.Ops)
			}
			if execsBefore > 0 {
				o.NonTrivial = true
			}
			o.Labels = append(o.Labels, "bad-member-call")
		}
		// (ii) sticky
		if at, ok := failed[key]; ok {
			o.Labels = append(o.Labels, "call-after-failure")
			o.NonTrivial = true
			if res.Err == "" {
				return evid.Viol("step %d %+v: template %q failed in analysis at step %d but now executes without error: out=%q\nhistory: %+v", i, op, name, at, res.Out, h.Ops)
			}
			if res.Out != "" {
				return evid.Viol("step %d %+v: template %q failed in analysis at step %d and now writes %q (err %q)\nhistory: %+v", i, op, name, at, res.Out, res.Err, h.Ops)
			}
		}
		if res.Class == "analysis" {
			if _, ok := failed[key]; !ok {
				failed[key] = i
			}
		}
		execsBefore++
	}
	if execsBefore == 0 {
		o.Skip = true
	}
	return o
}

func gen(t *rapid.T) Case {
	return Case{*hist.Gen(t, hist.Options{CSP: true, MaxOps: 14, MixedHelpers: rapid.Bool().Draw(t, "mixedh"), BadMembers: true, RuntimeBad: true, ReadOnlyOps: true, NoRedefine: true, ParseAfter: true, Unbalanced: rapid.IntRange(0, 2).Draw(t, "unbalanced") == 0, Clones: rapid.IntRange(0, 2).Draw(t, "clones") == 0})}
}

// TestPropCategories: every failure category, every body of the pool, alone in a set, through all four entry points,
// twice (sticky), with a good neighbour executed in between.
func TestPropCategories(t *testing.T) {
	shard, n := evid.Shard()
	var all []Case
	for _, cat := range hist.BadCategories() {
		for bi := range hist.BadBodies(cat) {
			for _, kind := range []string{"exectmpl", "exectmplhtml", "exec", "exechtml"} {
				for _, csp := range []bool{false, true} {
					all = append(all, Case{hist.CategoryHistory(cat, bi, kind, csp)})
				}
			}
		}
	}
	i := shard
	evid.RunEnum(t, "categories", func() (Case, bool) {
		if i >= len(all) {
			return Case{}, false
		}
		c := all[i]
		i += n
		return c, true
	}, check)
	evid.SetExhaustive("categories")
}

func TestPropSticky(t *testing.T) { evid.RunProp(t, "sticky", 1, gen, check) }

// FuzzSticky: coverage-guided exploration of the same generator (rapid.MakeFuzz turns the fuzzer's bytes into draws).
func FuzzSticky(f *testing.F) {
	f.Fuzz(rapid.MakeFuzz(func(t *rapid.T) {
		c := gen(t)
		o := check(c)
		if o.Violation != "" && !(o.Finding != "" && evid.IsKnown(o.Finding)) {
			evid.Record("fuzzsticky", c, o)
			t.Fatalf("%s replay=%s", o.Violation, evid.SaveFailure("fuzzsticky"))
		}
	}))
}

func TestReplay(t *testing.T) {
	evid.Replay(t, evid.R("fuzzsticky", check), evid.R("sticky", check), evid.R("categories", check))
}
