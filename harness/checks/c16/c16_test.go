// C16: CSSRule yields exactly one rule: selectors cannot inject blocks, rules or markup.
package c16

import (
	"fmt"
	"strings"
	"testing"

	"github.com/google/safehtml"
	"pgregory.net/rapid"

	"verif/evid"
	"verif/gen/strs"
	"verif/oracle/csssyn"
)

func TestMain(m *testing.M) { evid.Main(m, "C16") }

type Case struct {
	Selector evid.BStr `json:"selector"`
	// Style is built with StyleFromProperties from these (checked constructor).
	Color string      `json:"color"`
	BG    []evid.BStr `json:"background_image_urls"`
	FF    []evid.BStr `json:"font_family"`
}

func style(c Case) safehtml.Style {
	p := safehtml.StyleProperties{Color: c.Color}
	for _, u := range c.BG {
		p.BackgroundImageURLs = append(p.BackgroundImageURLs, string(u))
	}
	for _, f := range c.FF {
		p.FontFamily = append(p.FontFamily, string(f))
	}
	return safehtml.StyleFromProperties(p)
}

// stripLeading removes leading whitespace, which "parse a stylesheet" skips at top level.
func stripLeading(s string) string {
	for {
		t := strings.TrimLeft(s, " \t\n")
		// ("-->" and "<!--" in front of the rule are dropped by a style sheet parser as well, but then the prelude
		// is not the selector that was given: not tolerated here)
		if t == s {
			return s
		}
		s = t
	}
}

func urlUnquoted(sel string) bool {
	l := strings.ToLower(sel)
	for i := 0; ; {
		k := strings.Index(l[i:], "url(")
		if k < 0 {
			return false
		}
		i += k + 4
		j := i
		for j < len(l) && (l[j] == ' ' || l[j] == '\t' || l[j] == '\n' || l[j] == '\r' || l[j] == '\f') {
			j++
		}
		if j < len(l) && l[j] != '"' && l[j] != '\'' {
			return true
		}
	}
}

func check(c Case) evid.Outcome {
	sel := string(c.Selector)
	st := style(c)
	got, err := safehtml.CSSRule(sel, st)
	o := evid.Outcome{}
	if err != nil {
		o.Labels = append(o.Labels, "rejected")
		if got.String() != "" {
			return evid.Viol("CSSRule(%q) returned an error and the non-zero StyleSheet %q", sel, got.String())
		}
		return o
	}
	o.Labels = append(o.Labels, "accepted")
	o.NonTrivial = strings.ContainsAny(sel, "\"'[]()") || strings.Contains(strings.ToLower(sel), "url")
	res := got.String()
	fail := func(format string, a ...interface{}) evid.Outcome {
		v := evid.Viol("CSSRule(%q, %q) = %q: %s", sel, st.String(), res, fmt.Sprintf(format, a...))
		if urlUnquoted(sel) {
			v.Finding = "F-cssurl"
		}
		return v
	}
	if want := sel + "{" + st.String() + "}"; res != want {
		return fail("not exactly selector{style}")
	}
	rules, errs := csssyn.ParseRuleList(res)
	if len(rules) != 1 || rules[0].Qualified == nil {
		kinds := []string{}
		for _, r := range rules {
			if r.At != nil {
				kinds = append(kinds, "@"+r.At.Name)
			} else {
				kinds = append(kinds, "qualified:"+csssyn.Serialize(r.Qualified.Prelude))
			}
		}
		return fail("a CSS Syntax L3 parser sees %d rules %q (errors %v), want exactly one qualified rule", len(rules), kinds, errs)
	}
	q := rules[0].Qualified
	if !q.Block.Closed {
		return fail("the rule's block is not closed")
	}
	prelude := csssyn.Serialize(q.Prelude)
	psel := csssyn.Preprocess(sel)
	if prelude != psel && strings.TrimLeft(prelude, " \t\n") != stripLeading(psel) {
		return fail("the rule's prelude is %q, not the selector", prelude)
	}
	if body := csssyn.Serialize(q.Block.Values); body != csssyn.Preprocess(st.String()) {
		return fail("the rule's block holds %q, not the style %q", body, st.String())
	}
	// the block's declaration list equals that of the style alone
	bi, _ := csssyn.ParseDeclarationList(csssyn.Serialize(q.Block.Values))
	si, _ := csssyn.ParseDeclarationList(st.String())
	if len(bi) != len(si) {
		return fail("the block has %d declarations, the style %d", len(bi), len(si))
	}
	for i := range bi {
		if (bi[i].Decl == nil) != (si[i].Decl == nil) || bi[i].Decl != nil && (bi[i].Decl.Name != si[i].Decl.Name || csssyn.Serialize(bi[i].Decl.Value) != csssyn.Serialize(si[i].Decl.Value)) {
			return fail("declaration %d of the block differs from the style's", i)
		}
	}
	// what the selector contributes to the token stream
	toks, terrs := csssyn.Tokenize(sel)
	depth := []byte{}
	for _, t := range toks {
		switch t.Kind {
		case csssyn.LBrace, csssyn.RBrace, csssyn.Semicolon, csssyn.AtKeyword, csssyn.Comment, csssyn.BadString, csssyn.BadURL, csssyn.CDO:
			return fail("the selector contributes a %v token %q", t.Kind, t.Raw)
		case csssyn.URL:
			if t.Unterminated {
				return fail("the selector contributes an unterminated url token %q", t.Raw)
			}
		case csssyn.String:
			if t.Unterminated {
				return fail("the selector contributes an unterminated string %q", t.Raw)
			}
		case csssyn.Delim:
			if t.Value == "<" || t.Value == "@" {
				return fail("the selector contributes %q", t.Value)
			}
		case csssyn.LParen, csssyn.Function:
			depth = append(depth, ')')
		case csssyn.LBracket:
			depth = append(depth, ']')
		case csssyn.RParen, csssyn.RBracket:
			want := byte(')')
			if t.Kind == csssyn.RBracket {
				want = ']'
			}
			if len(depth) == 0 || depth[len(depth)-1] != want {
				return fail("the selector has an unbalanced %q", t.Raw)
			}
			depth = depth[:len(depth)-1]
		}
	}
	if len(depth) > 0 {
		return fail("the selector leaves a bracket open")
	}
	if len(terrs) > 0 {
		return fail("tokenizing the selector gives errors %v", terrs)
	}
	if strings.Contains(sel, "<") {
		return fail("the selector contains '<'")
	}
	return o
}

var selDict = []string{"-->", "-->input", " --> -->a", "a-->b", "--", "a-url(b)", "my_url(x)", "-x-image-url(", "xurl(", "a-url(b) url(x'){}*{color:red}')", "aurl(b) URL(x\"){}p{}z{\"y)", " url(", "url (", "u\\72l(",
	"a", "div", ".c", "#id", "*", " ", ">", "+", "~", ",", ":hover", "::before", ":not(", ")", "(", "[", "]", "[href", "=", "^=", "$=", "|=", "\"", "'", "\"x\"", "'y'", "\"{\"", "'}'", "\"]\"", "\")\"", "\"\\\"\"", "'\\''", "\\", "\\\n", "\\\r\n", "\\\f", "url(", "URL(", "Url( ", "url(x", "url(\"", "url('", "url(x\")", "url(\"x\")", "expression(", "var(", "{", "}", ";", "@", "@media", "@import", "/*", "*/", "//", "<", "<!--", "-->", "</style>", "\n", "\r", "\f", "\t", "\x00", "é", "--x", "-", "_", "$", "^", "|", "!", "&", "%", "a[href=\"x\"]", "a:not(.b)", "input[value^=a]", "){}", "{}", "z{", "\"){}input[value^=a]{background:url(//evil/a)}z{\"", "y)"}

var bracketDict = []string{"(", ")", "[", "]", ":not(", ":is(", "[a=", "a", ".b", " ", ",", "\"]\"", "')'", "\"(\"", "'['", "\\(", "\\]"}

var strBodies = []string{"x", "", "}", "{", "){}*{color:red}", "]", ")", "(", "[", ";", "@import", "/*", "*/", "url(", "\\\"", "\\'", "\\\\", "\\\n", "\\7d ", "é", "-->", "a b", "=", "\\A ", "\\\r\n", "\t"}

func genString(t *rapid.T) string {
	q := rapid.SampledFrom([]string{"\"", "'"}).Draw(t, "q")
	body := strs.From(3, strBodies).Draw(t, "strbody")
	// the other quote is plain text inside the string
	if rapid.IntRange(0, 3).Draw(t, "otherq") == 0 {
		if q == "'" {
			body += "\""
		} else {
			body += "'"
		}
	}
	body = strings.ReplaceAll(body, q, "\\"+q)
	return q + body + q
}

func genSimple(t *rapid.T, depth int) string {
	id := rapid.SampledFrom([]string{"a", "div", "x-y", "_z", "--v", "B9"}).Draw(t, "ident")
	if rapid.IntRange(0, 11).Draw(t, "oddident") == 0 {
		// refused outside strings (backslash, non-ASCII): kept rare so that most selectors are accepted
		id = rapid.SampledFrom([]string{"\\31 a", "h\\(", "é", "b\\]"}).Draw(t, "ident2")
	}
	switch rapid.IntRange(0, 7).Draw(t, "simple") {
	case 0:
		return id
	case 1:
		return "." + id
	case 2:
		return "#" + id
	case 3:
		return "*"
	case 4:
		op := rapid.SampledFrom([]string{"=", "^=", "$=", "*=", "~=", "|="}).Draw(t, "op")
		val := id
		if rapid.IntRange(0, 3).Draw(t, "quoted") > 0 {
			val = genString(t)
		}
		flag := rapid.SampledFrom([]string{"", " i", " s"}).Draw(t, "flag")
		return "[" + id + op + val + flag + "]"
	case 5:
		return "[" + id + "]"
	case 6:
		return rapid.SampledFrom([]string{":hover", "::before", ":nth-child(2n+1)", ":lang(" + "\"de\"" + ")", "::part(x)"}).Draw(t, "pseudo")
	default:
		fn := rapid.SampledFrom([]string{":not(", ":is(", ":where(", ":has(", "::slotted(", ":nth-child(2 of "}).Draw(t, "fn")
		if depth <= 0 {
			return fn + id + ")"
		}
		return fn + genSelector(t, depth-1) + ")"
	}
}

func genSelector(t *rapid.T, depth int) string {
	var b strings.Builder
	n := rapid.IntRange(1, 4).Draw(t, "parts")
	for i := 0; i < n; i++ {
		if i > 0 {
			b.WriteString(rapid.SampledFrom([]string{" ", ">", " > ", "+", "~", ", ", ",", "||", "  ", " ~ ", " ", ">", "\n", "\t"}).Draw(t, "comb"))
		}
		k := rapid.IntRange(1, 3).Draw(t, "compound")
		for j := 0; j < k; j++ {
			b.WriteString(genSimple(t, depth))
		}
	}
	return b.String()
}

func gen(t *rapid.T) Case {
	var c Case
	switch rapid.IntRange(0, 5).Draw(t, "kind") {
	case 5:
		// grammar-built selector (mostly accepted), then at most one edit: hostile text sits inside strings, brackets
		// nest, escapes precede quotes and brackets
		sel := genSelector(t, 2)
		if rapid.IntRange(0, 2).Draw(t, "edit") == 0 {
			sel = strs.Mutate(t, sel, 1, selDict)
		}
		c.Selector = evid.BStr(sel)
	case 4:
		// bracket structure: few kinds of pieces, so that nesting, crossing and unbalanced sequences are all frequent
		c.Selector = evid.BStr(strs.From(8, bracketDict).Draw(t, "sel"))
	case 0:
		c.Selector = evid.BStr(strs.From(8, selDict).Draw(t, "sel"))
	case 1:
		c.Selector = evid.BStr(strs.Mutate(t, rapid.SampledFrom([]string{"a[href=\"x\"]", "a:not(.b) > c", "div.c#id, p", "input[value^='a']", "a[title=\"}{\"]:hover", "x url(\"y\")", "a[b=\"url(\"]"}).Draw(t, "seed"), 3, selDict))
	case 2:
		// url( without quotes followed by quote-bearing text: the regexp/tokenizer mismatch zone
		c.Selector = evid.BStr(strs.CaseVariant(t, "url(") + strs.From(6, selDict).Draw(t, "tail"))
	default:
		c.Selector = evid.BStr(strs.Hostile(6, selDict).Draw(t, "sel"))
	}
	c.Color = rapid.SampledFrom([]string{"", "red", "#fff", "x;y", "}"}).Draw(t, "color")
	if rapid.IntRange(0, 2).Draw(t, "hasbg") == 0 {
		c.BG = []evid.BStr{evid.BStr(rapid.SampledFrom([]string{"https://h/a.png", "x\"){}", "}", "a{b", "javascript:x", "\\"}).Draw(t, "bg"))}
	}
	if rapid.IntRange(0, 2).Draw(t, "hasff") == 0 {
		c.FF = []evid.BStr{evid.BStr(rapid.SampledFrom([]string{"Arial", "a}b{", "\"x", "y\\", "</style>"}).Draw(t, "ff"))}
	}
	return c
}

func TestPropCore(t *testing.T) {
	for _, sel := range []string{"a", "a[href=\"url(x)\"]", "a:not(.b)", "div > p.c, #id", "a[title=\"}{;@\"]"} {
		c := Case{Selector: evid.BStr(sel), Color: "red"}
		o := check(c)
		if o.Violation != "" || o.Labels[0] != "accepted" {
			t.Fatalf("core %q: %+v", sel, o)
		}
	}
}

func TestPropRule(t *testing.T) { evid.RunProp(t, "rule", 1, gen, check) }

func FuzzRule(f *testing.F) {
	f.Add("url(x\"){}input[value^=a]{background:url(//evil/a)}z{\"y)")
	f.Add("a[href=\"x\"]:not(.b)")
	f.Add("a[b='\\\n']")
	f.Add("p:is(.x, [y='z')] q")
	f.Fuzz(func(t *testing.T, sel string) {
		c := Case{Selector: evid.BStr(sel), Color: "red"}
		if o := check(c); o.Violation != "" && !(o.Finding != "" && evid.IsKnown(o.Finding)) {
			evid.Record("fuzz", c, o)
			t.Fatalf("%s replay=%s", o.Violation, evid.SaveFailure("fuzz"))
		}
	})
}

func TestReplay(t *testing.T) {
	evid.Replay(t, evid.R("rule", check), evid.R("fuzz", check))
}
