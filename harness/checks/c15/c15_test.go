// C15: StyleFromProperties emits exactly the declared CSS declarations, nothing else.
package c15

import (
	"fmt"
	"strings"
	"testing"

	"github.com/google/safehtml"
	"pgregory.net/rapid"

	"verif/evid"
	"verif/gen/strs"
	"verif/oracle/csssyn"
	"verif/oracle/unicodex"
)

func TestMain(m *testing.M) { evid.Main(m, "C15") }

// Case mirrors StyleProperties; Regular holds the 15 plain-value fields in declaration order
// (display first, then background-color ... z-index). HasBG/HasFF distinguish nil from empty lists.
type Case struct {
	BG      []evid.BStr `json:"background_image_urls"`
	FF      []evid.BStr `json:"font_family"`
	Regular []evid.BStr `json:"plain_fields"` // len 15: display, background-color, background-position, background-repeat, background-size, color, height, width, left, right, top, bottom, font-weight, padding, z-index
}

var regularNames = []string{"display", "background-color", "background-position", "background-repeat", "background-size", "color", "height", "width", "left", "right", "top", "bottom", "font-weight", "padding", "z-index"}

const innocuous = "zGoSafezInvalidPropertyValue"

func props(c Case) safehtml.StyleProperties {
	var p safehtml.StyleProperties
	if c.BG != nil {
		p.BackgroundImageURLs = []string{} // empty but not nil: still "no value"
	}
	if c.FF != nil {
		p.FontFamily = []string{}
	}
	for _, u := range c.BG {
		p.BackgroundImageURLs = append(p.BackgroundImageURLs, string(u))
	}
	for _, f := range c.FF {
		p.FontFamily = append(p.FontFamily, string(f))
	}
	r := make([]string, 15)
	for i := range r {
		if i < len(c.Regular) {
			r[i] = string(c.Regular[i])
		}
	}
	p.Display, p.BackgroundColor, p.BackgroundPosition, p.BackgroundRepeat, p.BackgroundSize = r[0], r[1], r[2], r[3], r[4]
	p.Color, p.Height, p.Width, p.Left, p.Right, p.Top, p.Bottom, p.FontWeight, p.Padding, p.ZIndex = r[5], r[6], r[7], r[8], r[9], r[10], r[11], r[12], r[13], r[14]
	return p
}

// goCoerce: what a Go rune loop turns a string into (each invalid byte -> U+FFFD), plus NUL -> U+FFFD (CSS preprocessing / documented escaping).
func goCoerce(s string) string {
	var b strings.Builder
	for _, r := range unicodex.Runes(s) {
		if r == 0 {
			r = 0xFFFD
		}
		b.WriteString(unicodex.Encode(r))
	}
	return b.String()
}

// cssNL: CSS preprocessing of a string token's *value* does not apply (escapes yield exact code points),
// so expected values are compared verbatim.

// escaped reports whether cssEscapeString-style escaping applies to r (documented set).
func escapedRune(r rune) bool {
	return r == '<' || r == '"' || r == '\\' || r <= 0x1F || r == 0x7F || (r >= 0x80 && r <= 0x9F) || r == 0x2028 || r == 0x2029
}

// spaceEaten is the known-finding K-cssspace signature: want with every single space that directly
// follows an escaped rune removed (a CSS hex escape swallows one following whitespace).
func spaceEaten(want string) string {
	var b strings.Builder
	prevEsc := false
	for _, r := range want {
		if prevEsc && r == ' ' {
			prevEsc = false
			continue
		}
		prevEsc = escapedRune(r) && r != 0
		b.WriteRune(r)
	}
	return b.String()
}

func documentedAlphabet(s string) bool {
	for i := 0; i < len(s); i++ {
		c := s[i]
		if 'a' <= c && c <= 'z' || 'A' <= c && c <= 'Z' || '0' <= c && c <= '9' || c == ' ' || c == '\t' || strings.IndexByte("+-.!#%_/*", c) >= 0 {
			continue
		}
		return false
	}
	return !strings.Contains(s, "//") && !strings.Contains(s, "/*") && !strings.Contains(s, "*/")
}

func lettersHyphen(s string) bool {
	for i := 0; i < len(s); i++ {
		c := s[i]
		if !('a' <= c && c <= 'z' || 'A' <= c && c <= 'Z' || c == '-') {
			return false
		}
	}
	return true
}

func trimWS(vs []csssyn.ComponentValue) []csssyn.ComponentValue {
	for len(vs) > 0 && vs[0].Tok != nil && vs[0].Tok.Kind == csssyn.Whitespace {
		vs = vs[1:]
	}
	for len(vs) > 0 && vs[len(vs)-1].Tok != nil && vs[len(vs)-1].Tok.Kind == csssyn.Whitespace {
		vs = vs[:len(vs)-1]
	}
	return vs
}

// splitCommas splits a declaration value at top-level commas.
func splitCommas(vs []csssyn.ComponentValue) [][]csssyn.ComponentValue {
	out := [][]csssyn.ComponentValue{nil}
	for _, v := range vs {
		if v.Tok != nil && v.Tok.Kind == csssyn.Comma {
			out = append(out, nil)
			continue
		}
		out[len(out)-1] = append(out[len(out)-1], v)
	}
	for i := range out {
		out[i] = trimWS(out[i])
	}
	return out
}

func meta(s string) bool {
	return strings.ContainsAny(s, ";:{}()\"'\\/*@!<>,\n\r\f\x00") || !isASCII(s)
}

func isASCII(s string) bool {
	for i := 0; i < len(s); i++ {
		if s[i] >= 0x80 {
			return false
		}
	}
	return true
}

func check(c Case) evid.Outcome {
	out := safehtml.StyleFromProperties(props(c)).String()
	var o evid.Outcome
	// expected declarations
	type exp struct {
		name string
		kind int // 0 bg, 1 ff, 2 display, 3 regular
		idx  int
	}
	var want []exp
	if len(c.BG) > 0 {
		want = append(want, exp{"background-image", 0, 0})
	}
	if len(c.FF) > 0 {
		want = append(want, exp{"font-family", 1, 0})
	}
	for i, name := range regularNames {
		if i < len(c.Regular) && c.Regular[i] != "" {
			k := 3
			if i == 0 {
				k = 2
			}
			want = append(want, exp{name, k, i})
		}
	}
	for _, v := range c.BG {
		o.NonTrivial = o.NonTrivial || meta(string(v))
	}
	for _, v := range c.FF {
		o.NonTrivial = o.NonTrivial || meta(string(v))
	}
	for _, v := range c.Regular {
		o.NonTrivial = o.NonTrivial || meta(string(v))
	}
	fail := func(format string, a ...interface{}) evid.Outcome {
		return evid.Viol("properties %+q -> %q: %s", c, out, fmt.Sprintf(format, a...))
	}
	if strings.Contains(out, "<") {
		return fail("result contains '<'")
	}
	if out != "" && !strings.HasSuffix(out, ";") {
		return fail("result is neither empty nor ends with ';'")
	}
	toks, terrs := csssyn.Tokenize(out)
	for _, t := range toks {
		switch t.Kind {
		case csssyn.Comment, csssyn.BadString, csssyn.BadURL, csssyn.URL, csssyn.LBrace, csssyn.RBrace, csssyn.AtKeyword, csssyn.CDO, csssyn.CDC:
			return fail("token stream contains a %v token %q", t.Kind, t.Raw)
		}
		if t.Unterminated {
			return fail("unterminated %v token %q", t.Kind, t.Raw)
		}
	}
	if len(terrs) > 0 {
		return fail("tokenizer errors %v", terrs)
	}
	items, perrs := csssyn.ParseDeclarationList(out)
	if len(perrs) > 0 {
		return fail("parse errors %v", perrs)
	}
	if len(items) != len(want) {
		var names []string
		for _, it := range items {
			if it.Decl != nil {
				names = append(names, it.Decl.Name)
			} else {
				names = append(names, "@rule")
			}
		}
		return fail("parses as %d declarations %q, want exactly %d (one per non-empty field)", len(items), names, len(want))
	}
	for i, it := range items {
		if it.Decl == nil {
			return fail("item %d is an at-rule", i)
		}
		d := it.Decl
		w := want[i]
		if d.Name != w.name {
			return fail("declaration %d is %q, want %q", i, d.Name, w.name)
		}
		// brackets must be balanced and closed inside every value
		for _, v := range d.Value {
			if v.Block != nil && (!v.Block.Closed || v.Block.Open == '{') {
				return fail("declaration %q has an unclosed or {} block", d.Name)
			}
			if v.Func != nil && !v.Func.Closed {
				return fail("declaration %q has an unclosed function", d.Name)
			}
			if v.Tok != nil {
				switch v.Tok.Kind {
				case csssyn.RParen, csssyn.RBracket, csssyn.RBrace:
					return fail("declaration %q has an unmatched closing bracket", d.Name)
				}
			}
		}
		val := trimWS(d.Value)
		switch w.kind {
		case 0:
			parts := splitCommas(val)
			if len(parts) != len(c.BG) {
				return fail("background-image has %d components, want %d", len(parts), len(c.BG))
			}
			for k, p := range parts {
				u := string(c.BG[k])
				san := safehtml.URLSanitized(u).String()
				if len(p) != 1 || p[0].Func == nil || !csssyn.EqualASCIIFold(p[0].Func.Name, "url") {
					return fail("background-image component %d is not a single url() function", k)
				}
				args := trimWS(p[0].Func.Values)
				if len(args) != 1 || args[0].Tok == nil || args[0].Tok.Kind != csssyn.String {
					return fail("background-image component %d: url() does not hold exactly one string token", k)
				}
				if args[0].Tok.Value != goCoerce(san) {
					v := fail("background-image component %d: url string value %q, want URLSanitized(%q) = %q", k, args[0].Tok.Value, u, goCoerce(san))
					if args[0].Tok.Value == spaceEaten(goCoerce(san)) {
						v.Finding = "K-cssspace"
					}
					return v
				}
			}
		case 1:
			parts := splitCommas(val)
			if len(parts) != len(c.FF) {
				return fail("font-family has %d components, want %d", len(parts), len(c.FF))
			}
			for k, p := range parts {
				name := string(c.FF[k])
				if len(p) != 1 || p[0].Tok == nil {
					return fail("font-family component %d (%q) is not a single token", k, name)
				}
				t := p[0].Tok
				switch t.Kind {
				case csssyn.Ident:
					if t.Value != name || t.Raw != name {
						return fail("font-family component %d: identifier %q, want the input %q", k, t.Raw, name)
					}
				case csssyn.String:
					ok := t.Value == goCoerce(name)
					if len(name) >= 2 && name[0] == '"' && name[len(name)-1] == '"' && t.Value == goCoerce(name[1:len(name)-1]) {
						ok = true
					}
					if !ok {
						v := fail("font-family component %d: string value %q, want the (unquoted) input %q", k, t.Value, goCoerce(name))
						if t.Value == spaceEaten(goCoerce(name)) || (len(name) >= 3 && name[0] == '"' && name[len(name)-1] == '"' && t.Value == spaceEaten(goCoerce(name[1:len(name)-1]))) {
							v.Finding = "K-cssspace"
						}
						return v
					}
				default:
					return fail("font-family component %d is a %v token", k, t.Kind)
				}
			}
		case 2, 3:
			in := string(c.Regular[w.idx])
			got := csssyn.Serialize(d.Value)
			if d.Important {
				// the parser strips "!important" from the value; the source text is what is compared
				got = ""
			}
			var mustReplace bool
			if w.kind == 2 {
				mustReplace = !lettersHyphen(in)
			} else {
				mustReplace = !documentedAlphabet(in)
			}
			raw := rawValue(out, d.Name, i, items)
			if mustReplace && raw != innocuous {
				v := fail("field %s = %q is outside its documented alphabet but was emitted as %q instead of %s", w.name, in, raw, innocuous)
				if w.kind == 3 && strings.Contains(in, ",") && documentedAlphabet(strings.ReplaceAll(in, ",", "")) {
					v.Finding = "F-comma"
				}
				return v
			}
			if !mustReplace && raw != in && raw != innocuous {
				return fail("field %s = %q was emitted as %q (neither the input nor %s)", w.name, in, raw, innocuous)
			}
			_ = got
			if raw == innocuous {
				o.Labels = append(o.Labels, "replaced")
			} else {
				o.Labels = append(o.Labels, "kept")
			}
		}
	}
	return o
}

// rawValue returns the source text between "name:" and the terminating ';' of the i-th declaration,
// located by walking the output with the expected structure (names cannot contain ':' or ';').
func rawValue(out, name string, i int, items []csssyn.DeclItem) string {
	// declarations were parsed without error and in order; find the i-th top-level "name:" by scanning tokens
	toks, _ := csssyn.Tokenize(out)
	depth, idx := 0, -1
	start := -1
	for k, t := range toks {
		switch t.Kind {
		case csssyn.LParen, csssyn.LBracket, csssyn.LBrace, csssyn.Function:
			depth++
		case csssyn.RParen, csssyn.RBracket, csssyn.RBrace:
			if depth > 0 {
				depth--
			}
		}
		if depth == 0 && start < 0 && t.Kind == csssyn.Ident && k+1 < len(toks) && toks[k+1].Kind == csssyn.Colon {
			idx++
			if idx == i {
				start = toks[k+1].End
			}
			continue
		}
		if depth == 0 && t.Kind == csssyn.Semicolon {
			if start >= 0 {
				return csssyn.Preprocess(out)[start:t.Start]
			}
		}
		if start < 0 && depth == 0 && t.Kind == csssyn.Semicolon {
			continue
		}
	}
	return "\x00<not found>"
}

var cssDict = []string{";", ":", "{", "}", "(", ")", "\"", "'", "\\", "/", "*", "@", "!", "<", ">", ",", "/*", "*/", "//", "url(", "url(\"", "expression(", "\\3c ", "\\00003C", "\n", "\r", "\f", "\r\n", "\x00", "</style>", "<!--", "-->", "!important", "red", "#fff", "10px", "50%", "1em 2em", "a b", "inherit", "@import", "javascript:alert(1)", "https://x/y.png", "-", "--x", "x;color:red", "x}body{", "\\", "\\\n", "\\\"", "e\\73 cape", "\t", " ", "Arial", "sans-serif", "\"Times New Roman\"", "\"", "\"\"", "\"a\"b\"", "21st Century"}

func genVal(t *rapid.T, label string) string {
	switch rapid.IntRange(0, 3).Draw(t, label+"k") {
	case 0:
		return rapid.SampledFrom(cssDict).Draw(t, label)
	case 1:
		return strs.From(4, cssDict, []string{"a", "1", " ", "b"}).Draw(t, label)
	case 2:
		return strs.Mutate(t, rapid.SampledFrom([]string{"red", "10px", "1em 2em", "#a0b1c2", "50% 50%", "bold", "no-repeat", "Arial", "https://h/i.png"}).Draw(t, label+"seed"), 2, cssDict)
	default:
		return strs.Hostile(4, cssDict).Draw(t, label)
	}
}

func gen(t *rapid.T) Case {
	c := Case{Regular: make([]evid.BStr, 15)}
	if rapid.Bool().Draw(t, "hasbg") {
		n := rapid.IntRange(0, 3).Draw(t, "nbg")
		c.BG = []evid.BStr{}
		for i := 0; i < n; i++ {
			c.BG = append(c.BG, evid.BStr(genVal(t, "bg")))
		}
	}
	if rapid.Bool().Draw(t, "hasff") {
		n := rapid.IntRange(0, 3).Draw(t, "nff")
		c.FF = []evid.BStr{}
		for i := 0; i < n; i++ {
			c.FF = append(c.FF, evid.BStr(genVal(t, "ff")))
		}
	}
	k := rapid.IntRange(0, 4).Draw(t, "nregular")
	for i := 0; i < k; i++ {
		c.Regular[rapid.IntRange(0, 14).Draw(t, "field")] = evid.BStr(genVal(t, "val"))
	}
	return c
}

func TestPropCore(t *testing.T) {
	c := Case{BG: []evid.BStr{"https://h/a.png"}, FF: []evid.BStr{"Arial", "Times New Roman"}, Regular: []evid.BStr{"block", "#fff", "", "", "", "red", "10px"}}
	want := `background-image:url("https://h/a.png");font-family:Arial, "Times New Roman";display:block;background-color:#fff;color:red;height:10px;`
	if got := safehtml.StyleFromProperties(props(c)).String(); got != want {
		t.Fatalf("core: %q", got)
	}
	if o := check(c); o.Violation != "" {
		t.Fatal(o.Violation)
	}
}

// TestPropFields: every field on its own with every dictionary word (deterministic part).
func TestPropFields(t *testing.T) {
	shard, n := evid.Shard()
	type slot struct{ f, w int }
	var all []slot
	for f := 0; f < 17; f++ {
		for w := range cssDict {
			all = append(all, slot{f, w})
		}
	}
	i := shard
	next := func() (Case, bool) {
		if i >= len(all) {
			return Case{}, false
		}
		s := all[i]
		i += n
		c := Case{Regular: make([]evid.BStr, 15)}
		w := evid.BStr(cssDict[s.w])
		switch {
		case s.f == 15:
			c.BG = []evid.BStr{w, "x"}
		case s.f == 16:
			c.FF = []evid.BStr{"x", w}
		default:
			c.Regular[s.f] = w
			c.Regular[(s.f+1)%15] = "y"
		}
		return c, true
	}
	evid.RunEnum(t, "fields", next, check)
}

func TestPropStyle(t *testing.T) { evid.RunProp(t, "style", 1, gen, check) }

func FuzzStyle(f *testing.F) {
	f.Add("x\"),url(//e", "a\\", "red;x:y", "a,b")
	f.Add("javascript:x", "\"a\"", "/* */", "1e3,")
	f.Fuzz(func(t *testing.T, bg, ff, disp, col string) {
		c := Case{BG: []evid.BStr{evid.BStr(bg)}, FF: []evid.BStr{evid.BStr(ff)}, Regular: make([]evid.BStr, 15)}
		c.Regular[0] = evid.BStr(disp)
		c.Regular[5] = evid.BStr(col)
		if o := check(c); o.Violation != "" && !(o.Finding != "" && evid.IsKnown(o.Finding)) {
			evid.Record("fuzz", c, o)
			t.Fatalf("%s replay=%s", o.Violation, evid.SaveFailure("fuzz"))
		}
	})
}

func TestReplay(t *testing.T) {
	evid.Replay(t, evid.R("style", check), evid.R("fields", check), evid.R("fuzz", check))
}
