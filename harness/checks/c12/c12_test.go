// C12: URLSetSanitized keeps only safe image candidates under the WHATWG srcset parser.
package c12

import (
	"html"
	"strconv"
	"strings"
	"testing"

	"github.com/google/safehtml"
	"pgregory.net/rapid"

	"verif/evid"
	"verif/gen/strs"
	"verif/oracle/srcset"
	"verif/oracle/whaturl"
)

func TestMain(m *testing.M) { evid.Main(m, "C12") }

type Case struct {
	S evid.BStr `json:"s"`
}

const innocuous = "about:invalid#zGoSafez"

var urls = []string{"a.png", "b.jpg", "/x/y", "https://h/p", "//h/i", "x,y", ",lead", "trail,", ",", ",,", "a,,", "javascript:alert(1)", "JaVaScRiPt:x", "java", "script:x", "data:image/png;base64,AAA", "data:,", "%2c", "%2cx", "x%2c", "a(b", "(a,b)", "a)b", "u?q=1&r=2", "u#f", "&#106;avascript:x", "javascript&colon;x", "mailto:x", "a:b", "about:invalid#zGoSafez"}
var descs = []string{"1x", "2x", "1.5x", "100w", "50h", "1e2x", "1E-2x", "0x1p-2x", "0x10w", "inf", "Inf", "+inf", "-inf", "infinity", "nan", "NaN", "nanx", "infx", "1_000w", "0x_1p0", "+1x", "-1x", ".5x", "5.", "5.x", "1", "x", "w", "1xx", "1ww", "1x,", "(1x)", "1(x", "1x)", "٣x", "1é", "1\x00", "1e", "1e+", "0b1x", "0o7x", "1x2", "12"}
var seps = []string{" ", " ", "\t", "\n", "\f", "\r", ",", ",", " , ", ", ", " ,", ",,", "  "}

func ws(c byte) bool { return c == '\t' || c == '\n' || c == '\f' || c == '\r' || c == ' ' }

func descriptorOK(d string) bool {
	if d == "" {
		return false
	}
	p := d
	if l := d[len(d)-1] | 32; 'a' <= l && l <= 'z' {
		p = d[:len(d)-1]
	}
	_, err := strconv.ParseFloat(p, 64)
	return err == nil
}

type item struct {
	alts  []string
	isURL bool
}

// inOrder reports whether the items can be found in s, in order, without overlap, each occurrence
// delimited the way a copied URL / descriptor must be.
func inOrder(s string, items []item, from int) bool {
	if len(items) == 0 {
		return true
	}
	it := items[0]
	for _, a := range it.alts {
		if a == "" {
			continue
		}
		for p := from; p+len(a) <= len(s); p++ {
			k := strings.Index(s[p:], a)
			if k < 0 {
				break
			}
			p += k
			end := p + len(a)
			var ok bool
			if it.isURL {
				ok = (p == 0 || ws(s[p-1]) || s[p-1] == ',') && (end == len(s) || ws(s[end]))
			} else {
				ok = p > 0 && ws(s[p-1]) && (end == len(s) || ws(s[end]) || s[end] == ',')
			}
			if ok && inOrder(s, items[1:], end) {
				return true
			}
		}
	}
	return false
}

func undoComma(u string) []string {
	alts := []string{u}
	lead := strings.HasPrefix(u, "%2c")
	trail := strings.HasSuffix(u, "%2c") && len(u) >= 3
	if lead {
		alts = append(alts, ","+u[3:])
	}
	if trail {
		alts = append(alts, u[:len(u)-3]+",")
	}
	if lead && trail && len(u) >= 6 {
		alts = append(alts, ","+u[3:len(u)-3]+",")
	}
	return alts
}

func check(c Case) evid.Outcome {
	s := string(c.S)
	out := safehtml.URLSetSanitized(s).String()
	in := srcset.Parse(s)
	nt := len(in) >= 2
	for _, ic := range in {
		if ic.CommaStripped > 0 || strings.Contains(ic.URL, ",") || whaturl.IsJavascript(ic.URL) || safehtml.URLSanitized(ic.URL).String() != ic.URL {
			nt = true
		}
	}
	o := evid.Outcome{Key: s, NonTrivial: nt}
	cands := srcset.Parse(out)
	if len(cands) == 0 {
		return evid.Viol("URLSetSanitized(%q) = %q has no image candidate at all (must be the innocuous URL when nothing survives)", s, out)
	}
	if out == innocuous {
		o.Labels = append(o.Labels, "innocuous")
		if again := safehtml.URLSetSanitized(out).String(); again != out {
			return evid.Viol("not idempotent on the innocuous URL: %q", again)
		}
		return o
	}
	var items []item
	for _, cd := range cands {
		u := cd.URL
		if cd.CommaStripped > 0 {
			return evid.Viol("URLSetSanitized(%q) = %q: candidate URL %q has a comma glued to its end for the WHATWG parser", s, out, u)
		}
		if safehtml.URLSanitized(u).String() != u {
			return evid.Viol("URLSetSanitized(%q) = %q: candidate URL %q is not one URLSanitized leaves unchanged", s, out, u)
		}
		if whaturl.IsJavascript(u) || whaturl.IsJavascript(html.UnescapeString(u)) {
			return evid.Viol("URLSetSanitized(%q) = %q: candidate URL %q is a javascript: URL", s, out, u)
		}
		if len(cd.Descriptors) > 1 {
			return evid.Viol("URLSetSanitized(%q) = %q: candidate %q has %d descriptors %q", s, out, u, len(cd.Descriptors), cd.Descriptors)
		}
		items = append(items, item{undoComma(u), true})
		for _, d := range cd.Descriptors {
			if !descriptorOK(d) {
				return evid.Viol("URLSetSanitized(%q) = %q: descriptor %q is not a number followed by at most one ASCII letter", s, out, d)
			}
			items = append(items, item{[]string{d}, false})
		}
	}
	if !inOrder(s, items, 0) {
		return evid.Viol("URLSetSanitized(%q) = %q: surviving URLs/descriptors are not copied in order from the input", s, out)
	}
	if again := safehtml.URLSetSanitized(out).String(); again != out {
		return evid.Viol("URLSetSanitized is not idempotent: %q -> %q -> %q", s, out, again)
	}
	o.Labels = append(o.Labels, "survivors-"+strconv.Itoa(min(len(cands), 4)))
	if len(cands) < len(in) {
		o.Labels = append(o.Labels, "dropped-some")
	}
	if strings.Contains(out, "%2c") && !strings.Contains(s, "%2c") {
		o.Labels = append(o.Labels, "comma-encoded")
	}
	return o
}

func gen(t *rapid.T) Case {
	switch rapid.IntRange(0, 3).Draw(t, "kind") {
	case 0:
		return Case{evid.BStr(strs.Hostile(10, append(append([]string{}, urls...), descs...)).Draw(t, "s"))}
	default:
		// srcset-shaped: candidates of url [ws descriptor] separated by drawn separators
		n := rapid.IntRange(1, 5).Draw(t, "n")
		var b strings.Builder
		b.WriteString(rapid.SampledFrom([]string{"", "", " ", ",", "\t,"}).Draw(t, "lead"))
		for i := 0; i < n; i++ {
			if i > 0 {
				b.WriteString(rapid.SampledFrom(seps).Draw(t, "sep"))
			}
			b.WriteString(rapid.SampledFrom(urls).Draw(t, "url"))
			if rapid.IntRange(0, 2).Draw(t, "hasd") > 0 {
				b.WriteString(rapid.SampledFrom([]string{" ", " ", "\t", "\n", "\f", "\r", "  "}).Draw(t, "ws"))
				b.WriteString(rapid.SampledFrom(descs).Draw(t, "desc"))
				if rapid.IntRange(0, 5).Draw(t, "2nd") == 0 {
					b.WriteString(" " + rapid.SampledFrom(descs).Draw(t, "desc2"))
				}
			}
		}
		b.WriteString(rapid.SampledFrom([]string{"", "", " ", ",", " ,"}).Draw(t, "trail"))
		return Case{evid.BStr(strs.Mutate(t, b.String(), 2, nil))}
	}
}

// core: plainly valid sets must survive unchanged (vacuity guard, not part of the generated verdict)
func TestPropCore(t *testing.T) {
	for _, s := range []string{"a.png", "a.png 2x", "https://h/a.png 1x , https://h/b.png 2x", "/x 100w , /y 200w"} {
		if got := safehtml.URLSetSanitized(s).String(); got != s {
			t.Fatalf("core: URLSetSanitized(%q) = %q", s, got)
		}
	}
}

func TestPropSanitize(t *testing.T) { evid.RunProp(t, "sanitize", 1, gen, check) }

func FuzzSanitize(f *testing.F) {
	for _, s := range []string{"a.png 1x, b.png 2x", "javascript:x 1x", ",a,, 0x1p-2x ,", "a (x, y) 1x,b", "a\f1x\r,\nb\t2x"} {
		f.Add(s)
	}
	f.Fuzz(func(t *testing.T, s string) {
		c := Case{evid.BStr(s)}
		if o := check(c); o.Violation != "" {
			evid.Record("fuzz", c, o)
			t.Fatalf("%s replay=%s", o.Violation, evid.SaveFailure("fuzz"))
		}
	})
}

func TestReplay(t *testing.T) {
	evid.Replay(t, evid.R("sanitize", check), evid.R("fuzz", check))
}
