// C03: safe-type values bypass sanitization only in their own context; attribute values are always escaped.
package c03

import (
	"fmt"
	"strings"
	"testing"

	"pgregory.net/rapid"

	"verif/evid"
	"verif/gen/strs"
	"verif/oracle/htmltok"
	"verif/tx"
)

func TestMain(m *testing.M) { evid.Main(m, "C03") }

// cell is one sanitization context reachable from a template.
type cell struct {
	ID        string
	Tmpl      string   // contains {{.V}}
	Own       []string // safe types whose contract covers this context
	Attr      string   // attribute that holds the value ("" = element content / comment)
	Class     string
	MayReject bool   // shapes the engine refuses today (conditional names with an empty branch, ...): no acceptance required
	Known     string // id of the known finding a violation in this cell belongs to (positions the engine does not model)
}

func mkk(id, class, tmpl, attr, known string) cell {
	c := mk(id, class, tmpl, attr)
	c.Known = known
	return c
}

func mk(id, class, tmpl, attr string, own ...string) cell {
	return cell{ID: id, Tmpl: tmpl, Own: own, Attr: attr, Class: class}
}

func mkr(id, class, tmpl, attr string, own ...string) cell {
	c := mk(id, class, tmpl, attr, own...)
	c.MayReject = true
	return c
}

var cells = []cell{
	// positions inside a nested language that the engine does not model: no type's contract covers them, so a typed
	// value would have to be handled like a string (refused); the engine accepts the type of the outer context
	mkk("srcdoc-in-script", "HTMLValOnly+prefix", "<iframe srcdoc=\"<script>{{.V}}</script>\"></iframe>", "srcdoc", "K-srcdocpartial"),
	mkk("srcdoc-in-href", "HTMLValOnly+prefix", `<iframe srcdoc="<a href='{{.V}}'>x</a>"></iframe>`, "srcdoc", "K-srcdocpartial"),
	mkk("script-in-template-literal", "Script+jslex", "<script>var q = \"`\"; var t = `{{.V}}`; var r = \"`\";</script>", "", "K-jslex"),
	mkk("script-in-block-comment", "Script+jslex", `<script>/* {{.V}} */ init({});</script>`, "", "K-jslex"),
	mkk("script-in-string", "Script+jslex", `<script>var s = "{{.V}}";</script>`, "", "K-jslex"),
	mk("text-top", "HTML", `{{.V}}`, "", "HTML"),
	mk("text-div", "HTML", `<div>{{.V}}</div>`, "", "HTML"),
	mk("text-p-after", "HTML", `<p>a<b>c</b>{{.V}}</p>`, "", "HTML"),
	mk("text-a", "HTML", `<a href="/x">{{.V}}</a>`, "", "HTML"),
	mk("rcdata-textarea", "RCDATA", `<textarea>{{.V}}</textarea>`, ""),
	mk("rcdata-title", "RCDATA", `<title>{{.V}}</title>`, ""),
	mk("script-body", "Script", `<script>{{.V}}</script>`, "", "Script"),
	mk("script-body-type", "Script", `<script type="text/javascript">var a=1;{{.V}}</script>`, "", "Script"),
	mk("style-body", "StyleSheet", `<style>{{.V}}</style>`, "", "StyleSheet"),
	mk("comment", "Comment", `<p><!-- {{.V}} --></p>`, ""),
	mk("none-title-dq", "None", `<div title="{{.V}}">`, "title"),
	mk("none-alt-sq", "None", `<img alt='{{.V}}'>`, "alt"),
	mk("none-value", "None", `<input value="{{.V}}">`, "value"),
	mk("none-class-prefix", "None", `<span class="a {{.V}} b">`, "class"),
	mk("none-data", "None", `<div data-x-y="{{.V}}">`, "data-x-y"),
	mk("none-placeholder-sq-prefix", "None", `<input placeholder='x{{.V}}'>`, "placeholder"),
	mk("ident-id", "Identifier", `<div id="{{.V}}">`, "id", "Identifier"),
	mk("ident-for-sq", "Identifier", `<label for='{{.V}}'>`, "for", "Identifier"),
	mk("ident-aria", "Identifier", `<div aria-owns="{{.V}}">`, "aria-owns", "Identifier"),
	mk("ident-name-prefix", "Identifier", `<input name="p-{{.V}}">`, "name", "Identifier"),
	mk("style-attr", "Style", `<div style="{{.V}}">`, "style", "Style"),
	mk("style-attr-prefix", "Style", `<div style='color:red;{{.V}}'>`, "style", "Style"),
	mk("srcdoc", "HTMLValOnly", `<iframe srcdoc="{{.V}}">`, "srcdoc", "HTML"),
	mk("url-action", "URL", `<form action="{{.V}}">`, "action", "URL"),
	mk("url-formaction-sq", "URL", `<button formaction='{{.V}}'>`, "formaction", "URL"),
	mk("truorurl-a-href", "TrustedResourceURLOrURL", `<a href="{{.V}}">`, "href", "URL", "TrustedResourceURL"),
	mk("truorurl-img-src-sq", "TrustedResourceURLOrURL", `<img src='{{.V}}'>`, "src", "URL", "TrustedResourceURL"),
	mk("truorurl-link-icon", "TrustedResourceURLOrURL", `<link rel="icon" href="{{.V}}">`, "href", "URL", "TrustedResourceURL"),
	mk("tru-script-src", "TrustedResourceURL", `<script src="{{.V}}"></script>`, "src", "TrustedResourceURL"),
	mk("tru-iframe-src-sq", "TrustedResourceURL", `<iframe src='{{.V}}'>`, "src", "TrustedResourceURL"),
	mk("tru-link-stylesheet", "TrustedResourceURL", `<link rel="stylesheet" href="{{.V}}">`, "href", "TrustedResourceURL"),
	mk("tru-embed-src", "TrustedResourceURL", `<div href="{{.V}}">`, "href", "TrustedResourceURL"),
	mk("urlset-img", "URLSet", `<img srcset="{{.V}}">`, "srcset"),
	mk("urlset-source-sq", "URLSet", `<source srcset='{{.V}}'>`, "srcset"),
	mk("enum-dir", "DirEnum", `<div dir="{{.V}}">`, "dir"),
	mk("enum-target", "TargetEnum", `<a target='{{.V}}'>`, "target"),
	mk("enum-loading", "LoadingEnum", `<img loading="{{.V}}">`, "loading"),
	mk("enum-async", "AsyncEnum", `<script async="{{.V}}"></script>`, "async"),
	mk("url-prefix-path", "URL+prefix", `<a href="/x/{{.V}}">`, "href"),
	mk("url-prefix-query", "URL+prefix", `<a href='/x?q={{.V}}'>`, "href"),
	mk("url-prefix-fragment", "URL+prefix", `<form action="https://h/p#{{.V}}">`, "action"),
	mk("url-prefix-scheme", "URL+prefix", `<img src="https://h/{{.V}}">`, "src"),
	mk("tru-prefix-path", "TRU+prefix", `<script src="/x/{{.V}}"></script>`, "src"),
	mk("tru-prefix-query", "TRU+prefix", `<script src='https://h/x?q={{.V}}'></script>`, "src"),
	mk("tru-prefix-link", "TRU+prefix", `<link rel="stylesheet" href="//h/{{.V}}.css">`, "href"),
	// the context of the second element must not be inherited from the first
	mk("tru-link-after-icon", "TrustedResourceURL", `<link rel="icon" href="{{.U}}"><link rel="stylesheet" href="{{.V}}">`, "href", "TrustedResourceURL"),
	mk("tru-script-after-img", "TrustedResourceURL", `<img src="{{.U}}"><script src="{{.V}}"></script>`, "src", "TrustedResourceURL"),
	mk("url-form-after-a", "URL", `<a href="{{.U}}">x</a><form action="{{.V}}">`, "action", "URL"),
	mk("none-after-srcdoc", "None", `<iframe srcdoc="{{.H}}"></iframe><div title="{{.V}}">`, "title"),
	mk("rcdata-after-div", "RCDATA", `<div>{{.H}}</div><textarea>{{.V}}</textarea>`, ""),
	mk("ident-after-title", "Identifier", `<p title="{{.U}}" id="{{.V}}">`, "id", "Identifier"),
	// conditional names: both alternatives listed
	mk("none-cond-attr", "None", `<label {{if .C}}lang{{else}}translate{{end}}="{{.V}}">`, "lang"),
	mk("truorurl-cond-elem", "TrustedResourceURLOrURL", `{{if .C}}<img{{else}}<audio{{end}} src="{{.V}}">`, "src", "URL", "TrustedResourceURL"),
	// shapes refused today: whatever a change makes of them, a value is never emitted intact outside its own context
	mkr("cond-attr-empty-branch", "None", `<a {{if .C}}title{{end}}="{{.V}}">`, "title"),
	mkr("cond-attr-empty-branch-href", "TrustedResourceURLOrURL", `<a {{if .C}}href{{end}}="{{.V}}">`, "href", "URL", "TrustedResourceURL"),
	mkr("cond-attr-empty-else", "None", `<a {{if .F}}{{else}}title{{end}}="{{.V}}">`, "title"),
	mkr("range-attr", "None", `<a {{range .L}}title{{end}}="{{.V}}">`, "title"),
	mkr("unquoted", "None", `<a title={{.V}}>`, "title"),
	mkr("attr-name", "None", `<a {{.V}}="x">`, ""),
	mkr("unknown-attr", "None", `<a foo="{{.V}}">`, "foo"),
	mkr("onclick", "Script", `<a onclick="{{.V}}">`, "onclick"),
	mkr("unknown-elem", "HTML", `<foo>{{.V}}</foo>`, ""),
}

type Case struct {
	Cell     string    `json:"cell"`
	Type     string    `json:"type"`      // one of the seven, or "Stringer" (look-alike that is not a safe type)
	PtrDepth int       `json:"ptr_depth"` // 0, 1, 2
	NilPtr   bool      `json:"nil_ptr"`
	Contents evid.BStr `json:"contents"`
}

type lookalike struct{ s string }

func (l lookalike) String() string { return l.s }

func cellByID(id string) *cell {
	for i := range cells {
		if cells[i].ID == id {
			return &cells[i]
		}
	}
	return nil
}

func isOwn(c *cell, typ string) bool {
	for _, o := range c.Own {
		if o == typ {
			return true
		}
	}
	return false
}

func value(c Case) interface{} {
	var v interface{}
	if c.Type == "Stringer" {
		v = lookalike{string(c.Contents)}
	} else {
		v = tx.Typed(c.Type, string(c.Contents))
	}
	if c.NilPtr {
		return nilPtrOf(c.Type)
	}
	return tx.Ptr(v, c.PtrDepth)
}

func check(c Case) evid.Outcome {
	cl := cellByID(c.Cell)
	if cl == nil {
		return evid.Outcome{Skip: true}
	}
	s := string(c.Contents)
	o := evid.Outcome{Key: fmt.Sprintf("%s|%s|%d|%v|%s", c.Cell, c.Type, c.PtrDepth, c.NilPtr, s)}
	run := func(v interface{}) (string, error) {
		t, perr := tx.Parse(cl.Tmpl)
		if perr != nil {
			panic(perr)
		}
		return tx.Exec(t, map[string]interface{}{"V": v, "U": "/u", "H": tx.Typed("HTML", "<i>h</i>"), "C": true, "F": false, "L": []int{1}})
	}
	tout, terr := run(value(c))
	own := isOwn(cl, c.Type) && !c.NilPtr
	special := strings.ContainsAny(s, "<>\"'&")
	// (1) foreign context: exactly like an untrusted string with the same contents
	if !own && !c.NilPtr {
		sout, serr := run(s)
		if (terr == nil) != (serr == nil) || tout != sout {
			v := evid.Viol("cell %s (%s): %s value (ptr depth %d) with contents %q is not in its own context but is not handled like the plain string: typed -> (%q, %v), string -> (%q, %v)", cl.ID, cl.Tmpl, c.Type, c.PtrDepth, s, tout, terr, sout, serr)
			v.Finding = cl.Known
			return v
		}
		o.Labels = append(o.Labels, "foreign")
	}
	if own {
		o.Labels = append(o.Labels, "own")
		if terr == nil {
			o.Labels = append(o.Labels, "own-accepted")
		}
	}
	// (3) attributes are always escaped
	if cl.Attr != "" && terr == nil {
		bout, berr := run(tx.Ptr(benignOf(c), c.PtrDepth))
		r := htmltok.Tokenize([]byte(tout), htmltok.Options{})
		if berr == nil {
			rb := htmltok.Tokenize([]byte(bout), htmltok.Options{})
			if strings.Join(htmltok.Skeleton(r), "") != strings.Join(htmltok.Skeleton(rb), "") || r.Final != rb.Final {
				return evid.Viol("cell %s (%s): %s value with contents %q changes the markup structure: %q (benign rendering %q)", cl.ID, cl.Tmpl, c.Type, s, tout, bout)
			}
		}
		var av *htmltok.Attr
		for i := range r.Tokens {
			if r.Tokens[i].Kind == htmltok.StartTag {
				for k := range r.Tokens[i].Attrs {
					if r.Tokens[i].Attrs[k].Name == cl.Attr {
						av = &r.Tokens[i].Attrs[k] // the last element carrying the attribute
					}
				}
			}
		}
		if av == nil {
			return evid.Viol("cell %s: attribute %s not found in output %q", cl.ID, cl.Attr, tout)
		}
		raw := av.RawValue
		if strings.ContainsAny(raw, "<>\"'") || bareAmp(raw) {
			return evid.Viol("cell %s (%s): %s value with contents %q is emitted unescaped inside the attribute: raw value %q", cl.ID, cl.Tmpl, c.Type, s, raw)
		}
		if own && special {
			o.Labels = append(o.Labels, "own-attr-special")
		}
	}
	o.NonTrivial = terr == nil && special
	if terr != nil {
		o.Labels = append(o.Labels, "exec-error")
	}
	return o
}

// bareAmp: an '&' that does not start one of the references HTMLEscaped emits.
func bareAmp(raw string) bool {
	for i := 0; i < len(raw); i++ {
		if raw[i] != '&' {
			continue
		}
		ok := false
		for _, r := range []string{"&amp;", "&lt;", "&gt;", "&#34;", "&#39;"} {
			if strings.HasPrefix(raw[i:], r) {
				ok = true
			}
		}
		if !ok {
			return true
		}
	}
	return false
}

func benignOf(c Case) interface{} {
	if c.Type == "Stringer" {
		return lookalike{"zq"}
	}
	return tx.Typed(c.Type, "zq")
}

var dict = []string{"x\" onmouseover=\"alert(1)", "<script>alert(1)</script>", "</textarea>", "</script>", "</style>", "-->", "javascript:alert(1)", "' onx='", "<b>", "&amp;", "&", "\">", "'>", "> ", "a b", "https://h/p?q=1&r=2", "/x/y.js", "color:red;", "id-1", "ltr", "_blank", "async", "lazy", "a.png 2x, b.png 3x", "..", "%2e%2e", "\x00", "\n"}

func gen(t *rapid.T) Case {
	c := Case{Cell: cells[rapid.IntRange(0, len(cells)-1).Draw(t, "cell")].ID}
	c.Type = rapid.SampledFrom(append(append([]string{}, tx.TypeNames...), "Stringer")).Draw(t, "type")
	c.PtrDepth = rapid.SampledFrom([]int{0, 0, 0, 1, 2}).Draw(t, "ptr")
	c.NilPtr = rapid.IntRange(0, 19).Draw(t, "nil") == 0
	if rapid.Bool().Draw(t, "dictonly") {
		c.Contents = evid.BStr(rapid.SampledFrom(dict).Draw(t, "contents"))
	} else {
		c.Contents = evid.BStr(strs.Hostile(5, dict).Draw(t, "contents"))
	}
	return c
}

// TestPropMatrix enumerates the complete cell x type x pointer-depth matrix with every dictionary content.
func TestPropMatrix(t *testing.T) {
	shard, n := evid.Shard()
	types := append(append([]string{}, tx.TypeNames...), "Stringer")
	var all []Case
	for _, cl := range cells {
		for _, ty := range types {
			for _, d := range []int{0, 1, 2} {
				for _, w := range dict {
					all = append(all, Case{Cell: cl.ID, Type: ty, PtrDepth: d, Contents: evid.BStr(w)})
				}
			}
			all = append(all, Case{Cell: cl.ID, Type: ty, PtrDepth: 1, NilPtr: true})
		}
	}
	i := shard
	evid.RunEnum(t, "matrix", func() (Case, bool) {
		if i >= len(all) {
			return Case{}, false
		}
		c := all[i]
		i += n
		return c, true
	}, check)
	evid.SetExhaustive("matrix")
}

func TestPropCells(t *testing.T) { evid.RunProp(t, "cells", 1, gen, check) }

// TestPropCore: every cell's template is accepted for a benign value of an admissible kind (the matrix is not vacuous),
// and own-context values are emitted intact in element-content cells.
func TestPropCore(t *testing.T) {
	for _, cl := range cells {
		okSome := false
		for _, ty := range append([]string{""}, tx.TypeNames...) {
			for _, s := range []string{"zq", "ltr", "_blank", "async", "lazy"} {
				tt, perr := tx.Parse(cl.Tmpl)
				if perr != nil {
					t.Fatalf("cell %s does not parse: %v", cl.ID, perr)
				}
				if false {
				}
				if _, err := tx.Exec(tt, map[string]interface{}{"V": tx.Typed(ty, s), "U": "/u", "H": tx.Typed("HTML", "<i>h</i>"), "C": true, "F": false, "L": []int{1}}); err == nil {
					okSome = true
				}
			}
		}
		if !okSome && !cl.MayReject {
			t.Fatalf("cell %s (%s) accepts nothing", cl.ID, cl.Tmpl)
		}
	}
}

func TestReplay(t *testing.T) {
	evid.Replay(t, evid.R("matrix", check), evid.R("cells", check))
}
