package c03

import "github.com/google/safehtml"

// nilPtrOf returns a typed nil pointer to the named safe type.
func nilPtrOf(kind string) interface{} {
	switch kind {
	case "HTML":
		return (*safehtml.HTML)(nil)
	case "Script":
		return (*safehtml.Script)(nil)
	case "Style":
		return (*safehtml.Style)(nil)
	case "StyleSheet":
		return (*safehtml.StyleSheet)(nil)
	case "URL":
		return (*safehtml.URL)(nil)
	case "TrustedResourceURL":
		return (*safehtml.TrustedResourceURL)(nil)
	case "Identifier":
		return (*safehtml.Identifier)(nil)
	}
	return (*lookalike)(nil)
}
