// C08: the template API is total: problems are returned as errors, never panics or hangs.
package c08

import (
	"bytes"
	"errors"
	"fmt"
	"runtime/debug"
	"strings"
	"testing"
	"time"

	"github.com/google/safehtml/template"
	"pgregory.net/rapid"

	"verif/evid"
	"verif/gen/hist"
	"verif/gen/strs"
	"verif/tx"
)

func TestMain(m *testing.M) {
	evid.StuckAsViolation = true // the property is about termination
	evid.Main(m, "C08")
}

const watchdog = 30 * time.Second

// ---------- sub-property "texts" ----------

type TextCase struct {
	Text evid.BStr `json:"text"`
	Data string    `json:"data"` // selector of the data value
	CSP  bool      `json:"csp"`
	Left string    `json:"left,omitempty"` // custom delimiters
}

type obj struct {
	V    string
	C    bool
	L    []string
	M    map[string]interface{}
	Nil  *obj
	Next *obj
	F    func() string
}

func (o obj) Err() (string, error) { return "", errors.New("method error") }
func (o obj) Panic() string        { panic("method panic") }
func (o *obj) PtrMethod() string   { return "p" }
func (o obj) String() string       { return "<obj>" }
func (o obj) Arg(s string) string  { return s }

func dataFor(sel string) interface{} {
	switch sel {
	case "nil":
		return nil
	case "string":
		return "<b>str</b>"
	case "int":
		return 42
	case "map":
		return map[string]interface{}{"V": "<v>", "C": true, "L": []string{"a", "b"}, "M": map[string]interface{}{"K": "k"}, "Nil": nil, "Next": nil, "F": func() string { return "f" }}
	case "emptymap":
		return map[string]interface{}{}
	case "struct":
		return obj{V: "<v>", C: true, L: []string{"a", "<b>"}, M: map[string]interface{}{"K": 1}, F: func() string { return "f" }}
	case "ptr":
		return &obj{V: "v", Next: &obj{V: "n"}}
	case "nilptr":
		return (*obj)(nil)
	case "typednil":
		var e error
		return e
	case "slice":
		return []interface{}{1, "a", nil}
	case "typed":
		return tx.Typed("HTML", "<i>h</i>")
	}
	return nil
}

var dataSels = []string{"nil", "string", "int", "map", "emptymap", "struct", "ptr", "nilptr", "typednil", "slice", "typed"}

var htmlSoup = []string{"<a", " href=\"", "\"", "'", ">", "</a>", "<b>", "</b>", "<script>", "</script>", "<style>", "</style>", "<!--", "-->", "--!>", "<textarea>", "</textarea>", "<title>", "</title", "=", "<", "</", "<my-", "<svg:", "<a:", "<a-", "&", "&#", "&amp", "javascript:", "`", "${", "}", " ", "\n", "\x00", "x", " title=", " on", "<p ", "/>", "<br>", "<img src=", "<link rel=\"", "stylesheet", "<!DOCTYPE", "<?", "<![CDATA[", "]]>", "%", "&#x", "\xff", "<a b", "<a b=", "<a b=c", "<a b='", "</script ", "<iframe srcdoc=\"", "<input value=", "\\", "<SCRIPT>", "</TEXTAREA>"}
var longRuns = func() []string {
	var out []string
	for _, u := range []string{string(rune(0x23a)), string(rune(0x23e)), "\xff", string(rune(0x130)), "\xc3"} {
		for _, n := range []int{8, 30, 100, 300} {
			out = append(out, strings.Repeat(u, n))
		}
	}
	return out
}()

var actions = []string{"{{.V}}", "{{.}}", "{{.C}}", "{{.L}}", "{{.M.K}}", "{{.Nil}}", "{{.Nil.V}}", "{{.Next.V}}", "{{.Err}}", "{{.Panic}}", "{{.PtrMethod}}", "{{.Arg \"x\"}}", "{{.Missing}}", "{{index .L 0}}", "{{index .L 9}}", "{{len .L}}", "{{printf \"%s\" .V}}", "{{print .V .C}}", "{{println}}", "{{.V | html}}", "{{.V | urlquery}}", "{{html .V | print}}", "{{.V | print | html}}", "{{call .F}}", "{{call .V}}", "{{$x := .V}}", "{{$x := .V}}{{$x}}", "{{$}}", "{{/* c */}}", "{{- .V -}}", "{{-  .V}}", "{{.V  -}}", "{{\"lit\"}}", "{{1}}", "{{nil}}", "{{true}}", "{{not .C}}", "{{and .C .V}}", "{{or .Nil .V}}", "{{eq .V \"a\"}}", "{{lt 1 .V}}", "{{slice .V 1}}", "{{js .V}}", "{{template \"t\" .}}", "{{template \"t\"}}", "{{template \"u\" .}}", "{{template \"self\" .}}", "{{block \"b\" .}}in{{.V}}{{end}}", "{{break}}", "{{continue}}", "{{.V.X}}", "{{(.V)}}", "{{(print .V).X}}", "{{with $y := .V}}{{$y}}{{end}}"}
var defines = []string{`{{define "leaf"}}<u>{{.}}</u>{{end}}`, `{{define "t"}}<i>{{.}}</i>{{end}}`, `{{define "t"}}{{.V}}{{end}}`, `{{define "t"}}<a href="{{end}}`, `{{define "t"}}{{end}}`, `{{define "u"}}{{template "t" .}}{{end}}`, `{{define "self"}}{{with .Next}}{{template "self" .}}{{end}}x{{end}}`, `{{define "self"}}{{if .C}}{{template "self" .Next}}{{end}}{{end}}`, `{{define "b"}}redefined{{end}}`, `{{define "main"}}m{{end}}`}

func genBody(t *rapid.T, depth int) string {
	var b strings.Builder
	n := rapid.IntRange(0, 5).Draw(t, "n")
	for i := 0; i < n; i++ {
		max := 9
		if depth <= 0 {
			max = 5
		}
		switch k := rapid.IntRange(0, max).Draw(t, "k"); {
		case k <= 2:
			if rapid.IntRange(0, 24).Draw(t, "long") == 0 {
				b.WriteString(rapid.SampledFrom([]string{"<title>", "<script>", "<textarea>", "<style>", ""}).Draw(t, "lopen") + rapid.SampledFrom(longRuns).Draw(t, "longrun") + rapid.SampledFrom([]string{"</title>", "</script>", "</textarea>", "</style>", ""}).Draw(t, "lclose"))
			} else {
				b.WriteString(rapid.SampledFrom(htmlSoup).Draw(t, "html"))
			}
		case k <= 5:
			b.WriteString(rapid.SampledFrom(actions).Draw(t, "action"))
		case k == 6:
			b.WriteString("{{if " + rapid.SampledFrom([]string{".C", ".V", ".Nil", "not .C", ".Missing", "eq .V .C"}).Draw(t, "cond") + "}}" + genBody(t, depth-1))
			if rapid.Bool().Draw(t, "elseif") {
				b.WriteString("{{else if .V}}" + genBody(t, depth-1))
			}
			if rapid.Bool().Draw(t, "else") {
				b.WriteString("{{else}}" + genBody(t, depth-1))
			}
			b.WriteString("{{end}}")
		case k == 7:
			b.WriteString("{{range " + rapid.SampledFrom([]string{".L", ".M", ".V", ".Nil", "$i, $e := .L", "$e := .L", "5", ".Missing"}).Draw(t, "rng") + "}}" + genBody(t, depth-1))
			if rapid.IntRange(0, 2).Draw(t, "brk") == 0 {
				b.WriteString(rapid.SampledFrom([]string{"{{break}}", "{{continue}}", "{{if .}}{{break}}{{end}}", "{{if .}}{{continue}}{{end}}<b>"}).Draw(t, "bc"))
			}
			if rapid.Bool().Draw(t, "relse") {
				b.WriteString("{{else}}" + genBody(t, depth-1))
			}
			b.WriteString("{{end}}")
		case k == 8:
			b.WriteString("{{with " + rapid.SampledFrom([]string{".V", ".Next", ".Nil", ".M", "$w := .V"}).Draw(t, "with") + "}}" + genBody(t, depth-1))
			if rapid.Bool().Draw(t, "welse") {
				b.WriteString("{{else}}" + genBody(t, depth-1))
			}
			b.WriteString("{{end}}")
		default:
			b.WriteString(strs.Hostile(2, htmlSoup).Draw(t, "hostile"))
		}
	}
	return b.String()
}

// deepText: structures whose analysis time must not grow exponentially with their depth - ranges nested d deep around
// plain content, and a chain of d templates each calling the next below text that is in error.
func deepText(t *rapid.T) string {
	d := rapid.IntRange(20, 45).Draw(t, "depth")
	var b strings.Builder
	switch rapid.IntRange(0, 6).Draw(t, "deepkind") {
	case 6:
		// ranges nested d deep inside an attribute value whose text is of no consequence (F-attrloop)
		b.WriteString(`<p title="`)
		for i := 0; i < d; i++ {
			b.WriteString("{{range .L}}a")
		}
		for i := 0; i < d; i++ {
			b.WriteString("{{end}}")
		}
		b.WriteString(`">x</p>`)
	case 5:
		// a helper that calls itself k times, called from a loop inside a URL value: the comparison of its copies on
		// re-entry must not expand the calls (F-rewriteform)
		k := rapid.IntRange(5, 9).Draw(t, "selfcalls")
		b.WriteString(`{{define "t"}}{{if .Next}}`)
		for i := 0; i < k; i++ {
			b.WriteString(`{{template "t" .Next}}`)
		}
		b.WriteString(`{{end}}/a{{end}}<a href="{{range .L}}{{template "t" $}}{{end}}">x</a>`)
	case 4:
		// the error sits at the END of a plain call chain (F-errpass: every caller analysed its failing callee twice)
		for i := 0; i < d; i++ {
			fmt.Fprintf(&b, `{{define "c%d"}}<p>{{template "c%d" .}}</p>{{end}}`, i, i+1)
		}
		fmt.Fprintf(&b, `{{define "c%d"}}%s{{end}}{{template "c0" .}}`, d, rapid.SampledFrom([]string{`<a b"c>`, `<a href="{{.V}}`, `<p {{.V}}>`}).Draw(t, "leaferr"))
	case 3:
		// lists nested d deep, an element per level: every body starts inside <ul> and ends after </li>
		for i := 0; i < d; i++ {
			b.WriteString("<ul>{{range .L}}<li>")
		}
		b.WriteString("{{.}}")
		for i := 0; i < d; i++ {
			b.WriteString("</li>{{end}}</ul>")
		}
	case 0:
		b.WriteString("<ul>")
		for i := 0; i < d; i++ {
			b.WriteString("{{range .L}}")
		}
		b.WriteString("<li>{{.}}</li>")
		for i := 0; i < d; i++ {
			b.WriteString("{{end}}")
		}
		b.WriteString("</ul>")
	case 1:
		for i := 0; i < d; i++ {
			fmt.Fprintf(&b, `{{define "c%d"}}<i>{{template "c%d" .}}</i>{{end}}`, i, i+1)
		}
		fmt.Fprintf(&b, `{{define "c%d"}}x{{end}}`, d)
		b.WriteString(rapid.SampledFrom([]string{`<a b"c>`, `<a href="{{.V}}`, `{{if .C}}<b title="{{end}}`, ``}).Draw(t, "rooterr") + `{{template "c0" .}}`)
	default:
		for i := 0; i < d; i++ {
			b.WriteString("{{if .C}}{{with .V}}")
		}
		b.WriteString("<p>{{.}}</p>")
		for i := 0; i < d; i++ {
			b.WriteString("{{end}}{{end}}")
		}
	}
	return b.String()
}

func genText(t *rapid.T) TextCase {
	if rapid.IntRange(0, 39).Draw(t, "deep") == 0 {
		return TextCase{Text: evid.BStr(deepText(t)), Data: rapid.SampledFrom(dataSels).Draw(t, "data")}
	}
	var b strings.Builder
	nd := rapid.IntRange(0, 2).Draw(t, "ndef")
	for i := 0; i < nd; i++ {
		if rapid.Bool().Draw(t, "dictdef") {
			b.WriteString(rapid.SampledFrom(defines).Draw(t, "def"))
		} else {
			// generated bodies never recurse without a data guard: unbounded recursion through {{range}} makes
			// text/template re-panic through 100000 nested deferred frames (minutes of CPU, a standard library
			// pathology, not a hang of the code under test). Guarded recursion comes from the dictionary ("self").
			name := rapid.SampledFrom([]string{"t", "u", "b"}).Draw(t, "dn")
			body := genBody(t, 1)
			for _, callee := range []string{"t", "u", "b", "self"} {
				body = strings.ReplaceAll(body, `{{template "`+callee+`"`, `{{template "leaf"`)
				body = strings.ReplaceAll(body, `{{block "`+callee+`"`, `{{block "leaf2"`)
			}
			b.WriteString(`{{define "` + name + `"}}` + body + `{{end}}`)
		}
	}
	b.WriteString(genBody(t, 3))
	text := b.String()
	if rapid.IntRange(0, 9).Draw(t, "mutate") == 0 {
		text = strs.Mutate(t, text, 2, append(append([]string{}, htmlSoup...), "{{", "}}", "{{end}}", "{{else}}"))
	}
	return TextCase{Text: evid.BStr(text), Data: rapid.SampledFrom(dataSels).Draw(t, "data"), CSP: rapid.IntRange(0, 5).Draw(t, "csp") == 0}
}

// guarded runs f with recover and the watchdog. It returns the panic text ("" if none) and whether it hung.
func guarded(f func()) (pan string, hung bool) {
	done := make(chan string, 1)
	go func() {
		defer func() {
			if r := recover(); r != nil {
				done <- fmt.Sprintf("%v\n%s", r, debug.Stack())
				return
			}
			done <- ""
		}()
		f()
	}()
	select {
	case p := <-done:
		return p, false
	case <-time.After(watchdog):
		return "", true
	}
}

func runText(c TextCase) (parsed bool, pan string, hung bool) {
	return runTextN(c, 1)
}

func runTextN(c TextCase, times int) (parsed bool, pan string, hung bool) {
	pan, hung = guarded(func() {
		t := template.New("main")
		if c.CSP {
			t.CSPCompatible()
		}
		if c.Left != "" {
			t.Delims(c.Left, "]]")
		}
		if _, err := t.VerifParse(string(c.Text)); err != nil {
			return
		}
		parsed = true
		data := dataFor(c.Data)
		var b bytes.Buffer
		for i := 0; i < times; i++ {
			t.Execute(&b, data)
			for _, n := range []string{"t", "u", "self", "b", "main", "nope"} {
				t.ExecuteTemplate(&b, n, data)
				t.ExecuteTemplateToHTML(n, data)
			}
			t.ExecuteToHTML(data)
		}
		t.Lookup("t")
		t.Templates()
		t.DefinedTemplates()
		t.Clone()
		t.VerifParse("x")
		t.New("t")
		t.ExecuteTemplate(&b, "t", data)
	})
	return
}

func checkText(c TextCase) evid.Outcome {
	parsed, pan, hung := runText(c)
	o := evid.Outcome{Key: string(c.Text) + "|" + c.Data}
	if hung {
		// re-run twice before calling it a hang
		_, _, h2 := runText(c)
		_, _, h3 := runText(c)
		if h2 && h3 {
			return evid.Viol("template %q with data %s: a call did not return within %v (three runs)", c.Text, c.Data, watchdog)
		}
		o.Skip = true
		o.Labels = append(o.Labels, "slow-once")
		return o
	}
	if pan != "" {
		if strings.Contains(pan, "method panic") {
			// a panic raised by the caller's own method is propagated by text/template by design? no: it is recovered into an error
			// (text/template recovers panics of called functions); reaching here means it was not
		}
		return evid.Viol("template %q with data %s panicked: %s", c.Text, c.Data, first(pan, 1800))
	}
	if !parsed {
		o.Skip = true
		o.Labels = append(o.Labels, "parse-error")
		return o
	}
	s := string(c.Text)
	o.NonTrivial = strings.Contains(s, "{{if") || strings.Contains(s, "{{range") || strings.Contains(s, "{{with") || strings.Contains(s, "{{template") || strings.Contains(s, "{{block") || strings.Contains(s, "{{define")
	for _, k := range []string{"{{break}}", "{{continue}}", "{{template", "{{block", "{{range", "{{define"} {
		if strings.Contains(s, k) {
			o.Labels = append(o.Labels, "has:"+k[2:])
		}
	}
	return o
}

func first(s string, n int) string {
	if len(s) > n {
		return s[:n] + "..."
	}
	return s
}

// ---------- sub-property "histories" ----------

type HistCase struct {
	H hist.History `json:"history"`
}

func genHist(t *rapid.T) HistCase {
	return HistCase{*hist.Gen(t, hist.Options{CSP: true, Emptied: rapid.IntRange(0, 3).Draw(t, "emptied") == 0, MaxOps: 16, BadMembers: true, RuntimeBad: true, Unbalanced: rapid.Bool().Draw(t, "unbalanced"), MixedHelpers: rapid.Bool().Draw(t, "mixed"), Clones: true, ParseAfter: true, FileOps: true, ReadOnlyOps: true})}
}

func checkHist(c HistCase) evid.Outcome {
	results, r := hist.Run(&c.H, watchdog)
	defer r.Close()
	o := evid.Outcome{}
	afterErr := false
	for i, res := range results {
		if res.Hang {
			return evid.Viol("step %d %+v did not return within %v\nhistory: %+v", i, c.H.Ops[i], watchdog, c.H.Ops)
		}
		if res.Panic != "" {
			return evid.Viol("step %d %+v panicked: %s\nhistory: %+v", i, c.H.Ops[i], first(res.Panic, 1500), c.H.Ops)
		}
		if afterErr && !res.Nil {
			o.NonTrivial = true
		}
		if res.Err != "" {
			afterErr = true
		}
	}
	return o
}

func TestPropTexts(t *testing.T)     { evid.RunProp(t, "texts", 1, genText, checkText) }
func TestPropHistories(t *testing.T) { evid.RunProp(t, "histories", 0.2, genHist, checkHist) }

// FuzzText is the native fuzz target: template text bytes + data selector.
func FuzzText(f *testing.F) {
	for _, s := range append(append([]string{}, defines...), "{{range .L}}{{break}}{{end}}", "<a href=\"{{.V}}\">", "<script>`${{{.V}}}`</script>", "{{define \"t\"}}<a href=\"{{end}}{{template \"t\"}}", "<p>hello</p><my-", "<svg:{{.}}>", "{{if .C}}<a{{else}}<b{{end}} title={{.V}}>") {
		f.Add(s, 3)
	}
	f.Fuzz(func(t *testing.T, text string, sel int) {
		if strings.Contains(text, "{{range") && (strings.Contains(text, "{{template") || strings.Contains(text, "{{block")) {
			t.Skip("possible unbounded recursion through range: minutes of re-panicking inside text/template")
		}
		if sel < 0 {
			sel = -sel
		}
		c := TextCase{Text: evid.BStr(text), Data: dataSels[sel%len(dataSels)]}
		if o := checkText(c); o.Violation != "" {
			evid.Record("fuzz", c, o)
			t.Fatalf("%s replay=%s", first(o.Violation, 600), evid.SaveFailure("fuzz"))
		}
	})
}

func TestReplay(t *testing.T) {
	evid.Replay(t, evid.R("texts", checkText), evid.R("fuzz", checkText), evid.R("histories", checkHist))
}
