// C17: ScriptFromDataAndConstant embeds data as an inert, round-tripping JSON literal.
package c17

import (
	"bytes"
	"encoding/json"
	"errors"
	"math"
	"reflect"
	"strings"
	"testing"

	"github.com/google/safehtml"
	"pgregory.net/rapid"

	"verif/evid"
	"verif/gen/strs"
)

func TestMain(m *testing.M) { evid.Main(m, "C17") }

// Node is a serialisable description of a Go value.
type Node struct {
	Kind string      `json:"kind"`
	S    evid.BStr   `json:"s,omitempty"`
	I    int64       `json:"i,omitempty"`
	F    float64     `json:"f,omitempty"`
	B    bool        `json:"b,omitempty"`
	Keys []evid.BStr `json:"keys,omitempty"`
	Kids []Node      `json:"kids,omitempty"`
}

type Case struct {
	Name   evid.BStr `json:"name"`
	Script evid.BStr `json:"script"`
	Data   Node      `json:"data"`
}

type jsonM struct {
	out string
	err bool
}

func (j jsonM) MarshalJSON() ([]byte, error) {
	if j.err {
		return nil, errors.New("refused")
	}
	return []byte(j.out), nil
}

type textM struct {
	out string
	err bool
}

func (x textM) MarshalText() ([]byte, error) {
	if x.err {
		return nil, errors.New("refused")
	}
	return []byte(x.out), nil
}

type panicM struct{}

func (panicM) MarshalJSON() ([]byte, error) { panic("marshaler panics") }

type tagged struct {
	A interface{} `json:"a<b"`
	B interface{} `json:"</script>,omitempty"`
	C interface{} `json:"-"`
	D interface{} `json:"d,string"`
	E interface{}
}

func build(n Node) interface{} {
	switch n.Kind {
	case "str":
		return string(n.S)
	case "bytes":
		return []byte(n.S)
	case "int":
		return n.I
	case "float":
		return n.F
	case "nan":
		return math.NaN()
	case "inf":
		return math.Inf(1)
	case "bool":
		return n.B
	case "null":
		return nil
	case "list":
		out := make([]interface{}, 0, len(n.Kids))
		for _, k := range n.Kids {
			out = append(out, build(k))
		}
		return out
	case "map":
		out := map[string]interface{}{}
		for i, k := range n.Kids {
			if i < len(n.Keys) {
				out[string(n.Keys[i])] = build(k)
			}
		}
		return out
	case "textkeymap":
		out := map[textM]interface{}{}
		for i, k := range n.Kids {
			if i < len(n.Keys) {
				out[textM{out: string(n.Keys[i])}] = build(k)
			}
		}
		return out
	case "struct":
		var t tagged
		fs := []*interface{}{&t.A, &t.B, &t.C, &t.D, &t.E}
		for i, k := range n.Kids {
			if i < len(fs) {
				*fs[i] = build(k)
			}
		}
		return t
	case "ptr":
		if len(n.Kids) == 0 {
			var p *string
			return p
		}
		v := build(n.Kids[0])
		return &v
	case "jsonm":
		return jsonM{out: string(n.S), err: n.B}
	case "textm":
		return textM{out: string(n.S), err: n.B}
	case "raw":
		return json.RawMessage(n.S)
	case "number":
		return json.Number(n.S)
	case "panicm":
		return panicM{}
	case "chan":
		return make(chan int)
	case "func":
		return func() {}
	case "complex":
		return complex(1, 2)
	}
	return nil
}

var hostile = []string{"</script>", "</SCRIPT", "<!--", "-->", "<script>", "]]>", "&amp;", "&", "<", ">", " ", " ", "\\u2028", "\\", "\"", "';alert(1)//", "\n", "\x00", "\xff", "\xe2\x80", "\xe2\x80\xa8", "*/", "/*", "${x}", "`"}

var rawTexts = []string{`"</script>"`, `{"a":"<b>"}`, `[1,"&",{" ":" "}]`, `"<"`, `1`, `null`, `tru`, `{"a":}`, `"unterminated`, `</script>`, ` "x" `, `{"a" : "<" }`, "\" \"", `"a"/*<*/`, ``, `[`, `1 2`, `"\x3c"`}

func genStr(t *rapid.T, label string) string {
	return strs.Hostile(5, hostile).Draw(t, label)
}

func genNode(t *rapid.T, depth int) Node {
	max := 16
	if depth <= 0 {
		max = 9
	}
	switch rapid.IntRange(0, max).Draw(t, "kind") {
	case 0, 1, 2:
		return Node{Kind: "str", S: evid.BStr(genStr(t, "s"))}
	case 3:
		return Node{Kind: "int", I: rapid.Int64().Draw(t, "i")}
	case 4:
		return Node{Kind: "float", F: rapid.Float64().Draw(t, "f")}
	case 5:
		return Node{Kind: "bool", B: rapid.Bool().Draw(t, "b")}
	case 6:
		return Node{Kind: rapid.SampledFrom([]string{"null", "null", "nan", "inf", "chan", "func", "complex", "panicm"}).Draw(t, "odd")}
	case 7:
		if rapid.Bool().Draw(t, "rawdict") {
			return Node{Kind: "raw", S: evid.BStr(rapid.SampledFrom(rawTexts).Draw(t, "raw"))}
		}
		return Node{Kind: rapid.SampledFrom([]string{"raw", "jsonm", "number"}).Draw(t, "mk"), S: evid.BStr(genStr(t, "rawtext"))}
	case 8:
		return Node{Kind: rapid.SampledFrom([]string{"jsonm", "textm", "bytes"}).Draw(t, "mk"), S: evid.BStr(rapid.SampledFrom(rawTexts).Draw(t, "mtext")), B: rapid.IntRange(0, 9).Draw(t, "merr") == 0}
	case 9:
		return Node{Kind: "textm", S: evid.BStr(genStr(t, "text")), B: rapid.IntRange(0, 9).Draw(t, "terr") == 0}
	case 10, 11:
		n := rapid.IntRange(0, 3).Draw(t, "n")
		nd := Node{Kind: "list"}
		for i := 0; i < n; i++ {
			nd.Kids = append(nd.Kids, genNode(t, depth-1))
		}
		return nd
	case 12, 13:
		n := rapid.IntRange(0, 3).Draw(t, "n")
		nd := Node{Kind: rapid.SampledFrom([]string{"map", "map", "textkeymap"}).Draw(t, "mapkind")}
		for i := 0; i < n; i++ {
			nd.Keys = append(nd.Keys, evid.BStr(genStr(t, "key")))
			nd.Kids = append(nd.Kids, genNode(t, depth-1))
		}
		return nd
	case 14:
		nd := Node{Kind: "struct"}
		for i := 0; i < 5; i++ {
			nd.Kids = append(nd.Kids, genNode(t, depth-1))
		}
		return nd
	case 15:
		return Node{Kind: "ptr", Kids: []Node{genNode(t, depth-1)}}
	default:
		return Node{Kind: "ptr"}
	}
}

var names = []string{"myVar", "$cfg", "data_1", "_x", "ab", "a", "$", "_", "1a", "a-b", "a b", "a.b", "", "é", "aé", "myVar\n", "\nmyVar", "my\nVar", "a;alert(1)//", "a=1;var b", "ａｂ", "a\x00", "var", "a b", "if"}

func asciiIdent(s string) bool {
	if s == "" {
		return false
	}
	for i := 0; i < len(s); i++ {
		c := s[i]
		ok := c == '$' || c == '_' || 'a' <= c && c <= 'z' || 'A' <= c && c <= 'Z' || (i > 0 && '0' <= c && c <= '9')
		if !ok {
			return false
		}
	}
	return true
}

func hostileIn(n Node) bool {
	if strings.ContainsAny(string(n.S), "<>&") || strings.Contains(string(n.S), " ") || strings.Contains(string(n.S), " ") {
		return true
	}
	for _, k := range n.Keys {
		if strings.ContainsAny(string(k), "<>&") || strings.Contains(string(k), " ") || strings.Contains(string(k), " ") {
			return true
		}
	}
	for _, k := range n.Kids {
		if hostileIn(k) {
			return true
		}
	}
	return n.Kind == "struct"
}

func decode(b []byte) (interface{}, error) {
	d := json.NewDecoder(bytes.NewReader(b))
	d.UseNumber()
	var v interface{}
	if err := d.Decode(&v); err != nil {
		return nil, err
	}
	if d.More() {
		return nil, errors.New("trailing data")
	}
	return v, nil
}

// check judges one call and then a canary call: whatever the first call did (error, panic of a caller-supplied
// marshaler), the next call must still be exact.
func check(c Case) evid.Outcome {
	o := func() (o evid.Outcome) {
		defer func() {
			if r := recover(); r != nil {
				if hasPanicM(c.Data) {
					o = evid.Outcome{NonTrivial: true, Labels: []string{"caller-marshaler-panicked"}}
					return
				}
				panic(r)
			}
		}()
		return check1(c)
	}()
	if o.Violation != "" {
		return o
	}
	got, err := safehtml.VerifScriptFromDataAndConstant("canary", map[string]interface{}{"k": "<v>"}, "done();")
	if want := "var canary = {\"k\":\"\\u003cv\\u003e\"};\ndone();"; err != nil || got.String() != want {
		return evid.Viol("after the call with name %q data %+v the next call returned (%q, %v), want %q", c.Name, c.Data, got.String(), err, want)
	}
	return o
}

func hasPanicM(n Node) bool {
	if n.Kind == "panicm" {
		return true
	}
	for _, k := range n.Kids {
		if hasPanicM(k) {
			return true
		}
	}
	return false
}

func check1(c Case) evid.Outcome {
	name, script := string(c.Name), string(c.Script)
	data := build(c.Data)
	got, err := safehtml.VerifScriptFromDataAndConstant(name, data, script)
	o := evid.Outcome{NonTrivial: hostileIn(c.Data)}
	// independent encoding path: HTML-unsafe encoder
	var ref bytes.Buffer
	enc := json.NewEncoder(&ref)
	enc.SetEscapeHTML(false)
	encErr := enc.Encode(data)
	validName := asciiIdent(name)
	if err != nil {
		o.Labels = append(o.Labels, "failed")
		if got.String() != "" {
			return evid.Viol("error %v but non-zero Script %q", err, got.String())
		}
		if validName && encErr == nil {
			o.Labels = append(o.Labels, "valid-input-refused")
			for _, core := range []string{"myVar", "$cfg", "data_1"} {
				if name == core {
					return evid.Viol("core name %q with encodable data refused: %v", name, err)
				}
			}
		}
		o.NonTrivial = o.NonTrivial && (!validName || encErr != nil)
		return o
	}
	o.Labels = append(o.Labels, "succeeded")
	res := got.String()
	if !validName {
		return evid.Viol("name %q is not an ASCII identifier but the call succeeded: %q", name, res)
	}
	if encErr != nil {
		return evid.Viol("data cannot be encoded (%v) but the call succeeded: %q", encErr, res)
	}
	prefix, suffix := "var "+name+" = ", ";\n"+script
	if !strings.HasPrefix(res, prefix) || !strings.HasSuffix(res, suffix) || len(res) < len(prefix)+len(suffix) {
		return evid.Viol("result %q is not \"var %s = J;\\n%s\"", res, name, script)
	}
	j := res[len(prefix) : len(res)-len(suffix)]
	if !json.Valid([]byte(j)) {
		return evid.Viol("embedded literal %q is not a single JSON text", j)
	}
	for _, bad := range []string{"<", ">", "&", " ", " "} {
		if strings.Contains(j, bad) {
			return evid.Viol("embedded literal %q contains %q", j, bad)
		}
	}
	gv, gerr := decode([]byte(j))
	wv, werr := decode(ref.Bytes())
	if gerr != nil || werr != nil {
		return evid.Viol("decode errors: literal %v, reference %v (literal %q reference %q)", gerr, werr, j, ref.String())
	}
	if !reflect.DeepEqual(gv, wv) {
		return evid.Viol("literal %q decodes to %#v, the data's JSON value is %#v", j, gv, wv)
	}
	return o
}

func gen(t *rapid.T) Case {
	c := Case{Data: genNode(t, 3)}
	if rapid.IntRange(0, 3).Draw(t, "goodname") > 0 {
		c.Name = evid.BStr(rapid.SampledFrom([]string{"myVar", "$cfg", "data_1", "_x9", "ab"}).Draw(t, "name"))
	} else if rapid.Bool().Draw(t, "dictname") {
		c.Name = evid.BStr(rapid.SampledFrom(names).Draw(t, "name"))
	} else {
		c.Name = evid.BStr(strs.Mutate(t, rapid.SampledFrom(names).Draw(t, "name"), 2, names))
	}
	c.Script = evid.BStr(rapid.SampledFrom([]string{"", "use(myVar);", "alert(1)", "// x\n", "</script>", "%s %d", "i%2 == 0", "%[1]s", "100%", "%v%!"}).Draw(t, "script"))
	return c
}

func TestPropScript(t *testing.T) { evid.RunProp(t, "script", 1, gen, check) }

func FuzzScript(f *testing.F) {
	f.Add("myVar", "</script><!-- &", "x")
	f.Add("a\n", "x", "")
	f.Fuzz(func(t *testing.T, name, s, raw string) {
		for _, d := range []Node{{Kind: "str", S: evid.BStr(s)}, {Kind: "raw", S: evid.BStr(raw)}, {Kind: "map", Keys: []evid.BStr{evid.BStr(s)}, Kids: []Node{{Kind: "jsonm", S: evid.BStr(raw)}}}, {Kind: "textkeymap", Keys: []evid.BStr{evid.BStr(s)}, Kids: []Node{{Kind: "textm", S: evid.BStr(raw)}}}} {
			c := Case{evid.BStr(name), "s()", d}
			if o := check(c); o.Violation != "" {
				evid.Record("fuzz", c, o)
				t.Fatalf("%s replay=%s", o.Violation, evid.SaveFailure("fuzz"))
			}
		}
	})
}

func TestReplay(t *testing.T) {
	evid.Replay(t, evid.R("script", check), evid.R("fuzz", check))
}
