// C20: TrustedSourceFromConstantDir keeps dynamic filenames inside the constant dir.
package c20

import (
	"flag"
	"path/filepath"
	"strings"
	"testing"

	"github.com/google/safehtml/template"
	"pgregory.net/rapid"

	"verif/checks/c20/winsrc"
	"verif/evid"
	"verif/gen/strs"
	winpath "verif/winsim/filepath"
)

func TestMain(m *testing.M) { evid.Main(m, "C20") }

type Case struct {
	Dir      evid.BStr `json:"dir"`
	Src      evid.BStr `json:"src"`
	Filename evid.BStr `json:"filename"`
}

type strFlag string

func (s strFlag) String() string   { return string(s) }
func (s strFlag) Set(string) error { return nil }

var _ flag.Value = strFlag("")

var dirs = []string{"", ".", "/", "a", "a/b", "/abs/dir", "a/../b", "a/", "../x", "..", "a//b", "./a", "a/.", "/a/b/", "tmpl", "static/templates"}
var names = []string{"..", ".", "", "...", "..a", "a..", ".hidden", "x.tmpl", "a", "a/b", "/", "/etc/passwd", "../x", "x/..", "a:b", ":", "a\\b", "..\\x", "\\", "\x00", "a\x00b", " ", "a b", "\n", "∕", "／", "․․", "．．", "%2e%2e", "%2f", "~", "~root", "*", "?", "[a]", "{a,b}", "..:", ":..", "a/", "/a"}

func check(c Case) evid.Outcome {
	dir, src, fn := string(c.Dir), string(c.Src), string(c.Filename)
	ts, err := template.VerifTrustedSourceFromConstantDir(dir, template.TrustedSourceFromFlag(strFlag(src)), fn)
	o := evid.Outcome{NonTrivial: strings.ContainsAny(fn, "./:\\") || !isASCII(fn)}
	if err != nil {
		o.Labels = append(o.Labels, "rejected")
		if ts.String() != "" {
			return evid.Viol("error %v but non-zero result %q", err, ts.String())
		}
		return o
	}
	o.Labels = append(o.Labels, "accepted")
	r := ts.String()
	base := filepath.Join(dir, src)
	cbase := filepath.Clean(base)
	// independent structural check on the name itself
	if strings.ContainsRune(fn, filepath.Separator) || strings.ContainsRune(fn, filepath.ListSeparator) || fn == ".." {
		return evid.Viol("filename %q accepted although it contains a separator or is ..; result %q", fn, r)
	}
	if strings.Count(r, string(filepath.ListSeparator)) != strings.Count(base, string(filepath.ListSeparator)) {
		return evid.Viol("result %q has a list separator not present in the constant part %q (filename %q)", r, base, fn)
	}
	if r == base || r == cbase {
		o.Labels = append(o.Labels, "is-dir-itself")
		return o
	}
	if filepath.Dir(r) != cbase || filepath.Base(r) != fn {
		return evid.Viol("dir=%q src=%q filename=%q: result %q is neither %q nor a direct child of it named by the filename (Dir=%q Base=%q)", dir, src, fn, r, cbase, filepath.Dir(r), filepath.Base(r))
	}
	o.Labels = append(o.Labels, "direct-child")
	return o
}

func isASCII(s string) bool {
	for i := 0; i < len(s); i++ {
		if s[i] >= 0x80 {
			return false
		}
	}
	return true
}

func gen(t *rapid.T) Case {
	c := Case{Dir: evid.BStr(rapid.SampledFrom(dirs).Draw(t, "dir")), Src: evid.BStr(rapid.SampledFrom(dirs).Draw(t, "src"))}
	switch rapid.IntRange(0, 2).Draw(t, "kind") {
	case 0:
		c.Filename = evid.BStr(rapid.SampledFrom(names).Draw(t, "fn"))
	case 1:
		c.Filename = evid.BStr(strs.Mutate(t, rapid.SampledFrom(names).Draw(t, "fn"), 2, names))
	default:
		c.Filename = evid.BStr(strs.Hostile(5, names).Draw(t, "fn"))
	}
	return c
}

// ---------- the same function on a Windows host ----------
//
// winsrc is /repo's template/trustedsource.go compiled against the GOOS=windows versions of path/filepath and os
// (bin/gen-winsrc): there '/' and '\\' both separate path elements, ';' separates list entries and a leading "X:" or
// "\\\\host\\share" is a volume name.

var winDirs = []string{"", ".", `templates`, `templates\pages`, `templates/pages`, `C:\srv\tmpl`, `C:\`, `C:`, `\\host\share\t`, `\`, `a\..\b`, `..`, `a\`, `static/templates/`, `a;b`}
var winNames = []string{"C:", "C:x", "c:/x", `C:\x`, "z:..", "//host/share/x", `\\host\share\x`, "//./pipe/x", `\\.\pipe\x`, `\\?\C:\x`, `\??\C:\x`, "../x", `..\x`, "a/b", `a\b`, "/", `\`, ";", "a;b", "x:", "ab:c", "x.tmpl::$DATA", "NUL", "nul.txt", "COM1", "..", ".", "", "...", ".. ", "..a", "a..", "x.tmpl", "a", ":", " ", "\x00", "∕", "／", "＼", "․․", "%2e%2e", "%5c", "*", "?"}

// winConstOK: the constant part is a path a program would spell out - a colon only as the drive prefix of dir. (After
// an element that ends in ':' the Windows Join adds no separator, so the filename would continue that element.)
func winConstOK(dir, src string) bool {
	if strings.Contains(src, ":") {
		return false
	}
	if i := strings.IndexByte(dir, ':'); i >= 0 && !(i == 1 && driveLetter(dir) && strings.Count(dir, ":") == 1) {
		return false
	}
	// a UNC constant names at least \\host\share\dir: with less, the filename would become part of the volume name
	if j := winpath.Join(dir, src); len(j) >= 2 && (j[0] == '\\' || j[0] == '/') && (j[1] == '\\' || j[1] == '/') {
		vol := winpath.VolumeName(j)
		parts := strings.FieldsFunc(vol, func(r rune) bool { return r == '\\' || r == '/' })
		if len(vol) >= len(j) || len(parts) != 2 {
			return false
		}
	}
	return true
}

func checkWin(c Case) evid.Outcome {
	dir, src, fn := string(c.Dir), string(c.Src), string(c.Filename)
	if !winConstOK(dir, src) {
		return evid.Outcome{Skip: true, Labels: []string{"constant-part-with-colon"}}
	}
	r, err := winsrc.FromConstantDir(dir, src, fn)
	o := evid.Outcome{NonTrivial: strings.ContainsAny(fn, "./:\\;") || !isASCII(fn)}
	if err != nil {
		o.Labels = append(o.Labels, "rejected")
		if r != "" {
			return evid.Viol("windows: error %v but non-zero result %q", err, r)
		}
		return o
	}
	o.Labels = append(o.Labels, "accepted")
	if strings.ContainsAny(fn, "/\\;") || fn == ".." {
		return evid.Viol("windows: filename %q accepted although it contains a path or list separator of the host or is ..; result %q", fn, r)
	}
	base := winpath.Join(dir, src)
	cbase := winpath.Clean(base)
	if strings.Count(r, ";") != strings.Count(base, ";") {
		return evid.Viol("windows: result %q has a list separator not present in the constant part %q (filename %q)", r, base, fn)
	}
	if driveLetter(r) && !driveLetter(cbase) {
		return evid.Viol("windows: dir=%q src=%q filename=%q: result %q names a drive that the constant part %q does not", dir, src, fn, r, cbase)
	}
	if strings.Contains(fn, ":") {
		// Go takes ANY character followed by ':' for a drive (`\\:` + `x`), Windows only letters, and "name:stream" is a
		// stream of a direct child: beyond the drive rule above nothing is claimed about names with a colon
		o.Labels = append(o.Labels, "colon-no-further-claim")
		return o
	}
	if r == base || r == cbase {
		o.Labels = append(o.Labels, "is-dir-itself")
		return o
	}
	if winpath.Dir(r) != cbase || winpath.Base(r) != fn || !strings.EqualFold(winpath.VolumeName(r), winpath.VolumeName(cbase)) {
		return evid.Viol("windows: dir=%q src=%q filename=%q: result %q is neither %q nor a direct child of it named by the filename (Dir=%q Base=%q volume %q vs %q)", dir, src, fn, r, cbase, winpath.Dir(r), winpath.Base(r), winpath.VolumeName(r), winpath.VolumeName(cbase))
	}
	o.Labels = append(o.Labels, "direct-child")
	return o
}

func driveLetter(p string) bool {
	return len(p) >= 2 && p[1] == ':' && ('a' <= p[0]|0x20 && p[0]|0x20 <= 'z')
}

func genWin(t *rapid.T) Case {
	c := Case{Dir: evid.BStr(rapid.SampledFrom(winDirs).Draw(t, "dir")), Src: evid.BStr(rapid.SampledFrom(winDirs).Draw(t, "src"))}
	if !winConstOK(string(c.Dir), string(c.Src)) || c.Dir != "" && winpath.VolumeName(string(c.Src)) != "" {
		// a volume name in the middle of the constant part is not a path a program would spell out
		c.Src = ""
	}
	switch rapid.IntRange(0, 2).Draw(t, "kind") {
	case 0:
		c.Filename = evid.BStr(rapid.SampledFrom(winNames).Draw(t, "fn"))
	case 1:
		c.Filename = evid.BStr(strs.Mutate(t, rapid.SampledFrom(winNames).Draw(t, "fn"), 2, winNames))
	default:
		c.Filename = evid.BStr(strs.Hostile(5, winNames).Draw(t, "fn"))
	}
	return c
}

func TestPropWindows(t *testing.T) {
	for _, c := range []Case{{"a", "b", "x.tmpl"}, {"", "", "a"}, {`C:\srv`, "", "f"}} {
		if o := checkWin(c); o.Violation != "" || len(o.Labels) == 0 || o.Labels[0] != "accepted" {
			t.Fatalf("core %+v: %+v", c, o)
		}
	}
	evid.RunProp(t, "windows", 1, genWin, checkWin)
}

func FuzzWindows(f *testing.F) {
	f.Add("templates", "", "../secret.tmpl")
	f.Add("", "", "C:evil.tmpl")
	f.Add("", "", "//attacker/share/evil.tmpl")
	f.Fuzz(func(t *testing.T, d, s, fn string) {
		// the constant part comes from the representative list (the fuzzer's strings only select from it): arbitrary
		// "constants" such as `\\\\` or `x:` are not paths a program spells out, and with them the filename completes a
		// volume name or continues the last element
		c := Case{evid.BStr(winDirs[len(d)%len(winDirs)]), evid.BStr(winDirs[len(s)%len(winDirs)]), evid.BStr(fn)}
		if !winConstOK(string(c.Dir), string(c.Src)) || c.Dir != "" && winpath.VolumeName(string(c.Src)) != "" {
			c.Src = ""
		}
		if o := checkWin(c); o.Violation != "" {
			evid.Record("fuzzwindows", c, o)
			t.Fatalf("%s replay=%s", o.Violation, evid.SaveFailure("fuzzwindows"))
		}
	})
}

func TestPropCore(t *testing.T) {
	for _, c := range []Case{{"a", "b", "x.tmpl"}, {"", "", "a"}, {"/abs", "", "f"}} {
		o := check(c)
		if o.Violation != "" || len(o.Labels) == 0 || o.Labels[0] != "accepted" {
			t.Fatalf("core %+v: %+v", c, o)
		}
	}
}

func TestPropDir(t *testing.T) { evid.RunProp(t, "constdir", 1, gen, check) }

func FuzzDir(f *testing.F) {
	f.Add("a", "b", "..")
	f.Add("", "", "x/..")
	f.Add("/", "a", "a:b")
	f.Fuzz(func(t *testing.T, d, s, fn string) {
		c := Case{evid.BStr(d), evid.BStr(s), evid.BStr(fn)}
		if o := check(c); o.Violation != "" {
			evid.Record("fuzz", c, o)
			t.Fatalf("%s replay=%s", o.Violation, evid.SaveFailure("fuzz"))
		}
	})
}

func TestReplay(t *testing.T) {
	evid.Replay(t, evid.R("constdir", check), evid.R("fuzz", check), evid.R("windows", checkWin), evid.R("fuzzwindows", checkWin))
}
