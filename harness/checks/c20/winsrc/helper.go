// Package winsrc holds a copy of /repo's template/trustedsource.go in which only the package clause and the imports
// "path/filepath" and "os" are redirected (to verif/winsim/filepath and verif/winsim/os, the GOOS=windows versions).
// The copy (trustedsource_gen.go) is written by bin/gen-winsrc before every build of the C20 check and is not
// committed.
package winsrc

type stringConstant string

// FromConstantDir calls the copied TrustedSourceFromConstantDir with a run-time dir.
func FromConstantDir(dir string, src string, filename string) (string, error) {
	ts, err := TrustedSourceFromConstantDir(stringConstant(dir), TrustedSource{src}, filename)
	return ts.String(), err
}
