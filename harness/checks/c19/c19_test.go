// C19: trusted-text parameters accept only compile-time constants; no raw back doors.
// Built WITHOUT the verif tag: it judges the shipping API surface.
package c19

import (
	"bytes"
	"encoding/json"
	"fmt"
	"go/ast"
	"go/importer"
	"go/parser"
	"go/token"
	"go/types"
	"io"
	"os"
	"os/exec"
	"path/filepath"
	"sort"
	"strings"
	"testing"

	"pgregory.net/rapid"

	"verif/evid"
)

var (
	exports = map[string]string{} // import path -> export data file
	pkgs    = map[string]*types.Package{}
	fset    = token.NewFileSet()
	imp     types.Importer
)

const (
	pkgSafe = "github.com/google/safehtml"
	pkgTmpl = "github.com/google/safehtml/template"
)

func harnessDir() string { return filepath.Join(evid.Root(), "harness") }

func goEnv() []string {
	return append(os.Environ(), "GOFLAGS=-mod=mod", "GOPROXY=off", "GOSUMDB=off", "GOTOOLCHAIN=local")
}

func TestMain(m *testing.M) {
	cmd := exec.Command("go", "list", "-export", "-json", "-deps", pkgSafe+"/...", "fmt", "strings", "os", "flag", "embed", "text/template/parse", "io/fs")
	cmd.Dir = harnessDir()
	cmd.Env = goEnv()
	if mf := os.Getenv("VERIF_MODFILE"); mf != "" {
		// bin/try-mutant: the harness module is resolved against a scratch tree of the library
		cmd.Env = append(cmd.Env, "GOFLAGS=-mod=mod -modfile="+mf)
	}
	var stderr bytes.Buffer
	cmd.Stderr = &stderr
	out, err := cmd.Output()
	if err != nil {
		fmt.Fprintln(os.Stderr, "go list failed:", err, stderr.String())
		os.Exit(2)
	}
	dec := json.NewDecoder(bytes.NewReader(out))
	for {
		var p struct{ ImportPath, Export string }
		if err := dec.Decode(&p); err == io.EOF {
			break
		} else if err != nil {
			fmt.Fprintln(os.Stderr, "go list output:", err)
			os.Exit(2)
		}
		if p.Export != "" {
			exports[p.ImportPath] = p.Export
		}
	}
	imp = importer.ForCompiler(fset, "gc", func(path string) (io.ReadCloser, error) {
		f, ok := exports[path]
		if !ok {
			return nil, fmt.Errorf("no export data for %q", path)
		}
		return os.Open(f)
	})
	for _, p := range []string{pkgSafe, pkgTmpl} {
		pk, err := imp.Import(p)
		if err != nil {
			fmt.Fprintln(os.Stderr, "import", p, err)
			os.Exit(2)
		}
		pkgs[p] = pk
	}
	buildPositions()
	evid.Main(m, "C19")
}

// ---------- positions: parameters that only admit untyped string constants ----------

type position struct {
	Pkg      string // import path
	Recv     string // "" for functions, else expression producing a receiver
	Name     string
	Index    int
	Variadic bool
	sig      *types.Signature
}

var positions []position

func constParam(t types.Type) bool {
	n, ok := t.(*types.Named)
	if !ok {
		return false
	}
	b, ok := n.Underlying().(*types.Basic)
	return ok && b.Kind() == types.String && !n.Obj().Exported()
}

func buildPositions() {
	for _, path := range []string{pkgSafe, pkgTmpl} {
		sc := pkgs[path].Scope()
		for _, name := range sc.Names() {
			obj := sc.Lookup(name)
			if !obj.Exported() {
				continue
			}
			switch o := obj.(type) {
			case *types.Func:
				addPositions(path, "", o)
			case *types.TypeName:
				ms := types.NewMethodSet(types.NewPointer(o.Type()))
				for i := 0; i < ms.Len(); i++ {
					if f, ok := ms.At(i).Obj().(*types.Func); ok && f.Exported() {
						addPositions(path, receiverExpr(path, o), f)
					}
				}
			}
		}
	}
	sort.Slice(positions, func(a, b int) bool {
		return positions[a].Pkg+positions[a].Recv+positions[a].Name < positions[b].Pkg+positions[b].Recv+positions[b].Name
	})
}

func short(path string) string { return path[strings.LastIndex(path, "/")+1:] }

func receiverExpr(path string, o *types.TypeName) string {
	if path == pkgTmpl && o.Name() == "Template" {
		return `template.New("r")`
	}
	if _, ok := o.Type().Underlying().(*types.Struct); ok {
		return short(path) + "." + o.Name() + "{}"
	}
	return "(*new(" + short(path) + "." + o.Name() + "))"
}

func addPositions(path, recv string, f *types.Func) {
	sig := f.Type().(*types.Signature)
	for i := 0; i < sig.Params().Len(); i++ {
		t := sig.Params().At(i).Type()
		variadic := sig.Variadic() && i == sig.Params().Len()-1
		if variadic {
			t = t.(*types.Slice).Elem()
		}
		if constParam(t) {
			positions = append(positions, position{path, recv, f.Name(), i, variadic, sig})
		}
	}
}

func qual(p *types.Package) string { return p.Name() }

// zeroExpr: an expression of type t usable as an argument.
func zeroExpr(t types.Type) string {
	switch u := t.(type) {
	case *types.Basic:
		switch {
		case u.Info()&types.IsString != 0:
			return `"s"`
		case u.Info()&types.IsBoolean != 0:
			return "false"
		case u.Info()&types.IsNumeric != 0:
			return "0"
		}
		return "nil"
	case *types.Named:
		if constParam(t) {
			return `"c"`
		}
		switch u.Underlying().(type) {
		case *types.Struct:
			return types.TypeString(t, qual) + "{}"
		case *types.Interface, *types.Map, *types.Slice, *types.Pointer, *types.Signature:
			return "nil"
		}
		return "*new(" + types.TypeString(t, qual) + ")"
	}
	return "nil"
}

// callWith renders the call of position p with arg at the constant-only parameter.
func (p position) callWith(arg string) string {
	var args []string
	for i := 0; i < p.sig.Params().Len(); i++ {
		if i == p.Index {
			args = append(args, arg)
			continue
		}
		t := p.sig.Params().At(i).Type()
		if p.sig.Variadic() && i == p.sig.Params().Len()-1 {
			continue // leave other variadic parameters empty
		}
		args = append(args, zeroExpr(t))
	}
	head := short(p.Pkg) + "." + p.Name
	if p.Recv != "" {
		head = p.Recv + "." + p.Name
	}
	return head + "(" + strings.Join(args, ", ") + ")"
}

// ---------- programs ----------

type Case struct {
	Position int    `json:"position"` // index into the enumerated positions
	Where    string `json:"where"`    // for readability: pkg.Func#param
	Expr     string `json:"expr"`     // kind of argument expression
	Constant bool   `json:"constant"` // control program: must compile
}

var nonConst = map[string]string{
	"variable":            `dyn`,
	"typed-constant":      `typedConst`,
	"conversion-bytes":    `string(bs)`,
	"conversion-string":   `string(dyn)`,
	"call-result":         `get()`,
	"concat-variable":     `"a" + dyn`,
	"concat-variable-2":   `dyn + "a"`,
	"sprint":              `fmt.Sprint("a")`,
	"slice-element":       `ss[0]`,
	"map-element":         `ms["k"]`,
	"struct-field":        `st.f`,
	"pointer-deref":       `*ps`,
	"closure-result":      `func() string { return "x" }()`,
	"named-string-type":   `myString("x")`,
	"unexported-type":     `PKG.stringConstant(dyn)`,
	"unexported-type-lit": `PKG.stringConstant("x")`,
	"param":               `param`,
	"interface-assert":    `iface.(string)`,
	"method-value":        `st.get()`,
	"index-of-const":      `string("abc"[0])`,
	"typed-const-expr":    `typedConst + "x"`,
	"strings-call":        `strings.ToLower("X")`,
}

var constExprs = map[string]string{
	"literal":        `"lit"`,
	"raw-literal":    "`raw`",
	"const-expr":     `"a" + "b"`,
	"named-untyped":  `untypedConst`,
	"untyped-concat": `untypedConst + "x"`,
	"parenthesised":  `("p")`,
}

func sortedKeys(m map[string]string) []string {
	var ks []string
	for k := range m {
		ks = append(ks, k)
	}
	sort.Strings(ks)
	return ks
}

const prelude = `package main

import (
	"fmt"
	"strings"

	"github.com/google/safehtml"
	"github.com/google/safehtml/template"
)

type myString string
type holder struct{ f string }

func (h holder) get() string { return h.f }
func get() string            { return "g" }

const typedConst string = "t"
const untypedConst = "u"

var (
	dyn         = get()
	bs          = []byte("b")
	ss          = []string{"s"}
	ms          = map[string]string{"k": "v"}
	st          = holder{"f"}
	ps          = &dyn
	iface interface{} = "i"
	_           = fmt.Sprint
	_           = strings.ToLower
	_           = safehtml.HTMLEscaped
	_           = template.New
)

func use(param string) {
`

func (c Case) program() (string, bool) {
	if c.Position < 0 || c.Position >= len(positions) {
		return "", false
	}
	p := positions[c.Position]
	var arg string
	if c.Constant {
		arg = constExprs[c.Expr]
	} else {
		arg = strings.ReplaceAll(nonConst[c.Expr], "PKG", short(p.Pkg))
	}
	if arg == "" {
		return "", false
	}
	return prelude + "\t_ = func() interface{} { return []interface{}{ARGMARK} }\n}\n\nfunc main() { use(\"m\") }\n", true
}

func (c Case) source() (string, bool) {
	src, ok := c.program()
	if !ok {
		return "", false
	}
	p := positions[c.Position]
	var arg string
	if c.Constant {
		arg = constExprs[c.Expr]
	} else {
		arg = strings.ReplaceAll(nonConst[c.Expr], "PKG", short(p.Pkg))
	}
	call := p.callWith(arg)
	// calls may return several values: wrap in a closure call statement instead of a slice element
	src = strings.Replace(src, "\t_ = func() interface{} { return []interface{}{ARGMARK} }\n", "\tfunc() {\n\t\t"+call+"\n\t}()\n", 1)
	return src, true
}

func typeCheck(src string) []error {
	f, err := parser.ParseFile(fset, "client.go", src, 0)
	if err != nil {
		return []error{err}
	}
	var errs []error
	conf := types.Config{Importer: imp, Error: func(e error) { errs = append(errs, e) }}
	conf.Check("main", fset, []*ast.File{f}, nil)
	return errs
}

func check(c Case) evid.Outcome {
	src, ok := c.source()
	if !ok {
		return evid.Outcome{Skip: true}
	}
	p := positions[c.Position]
	errs := typeCheck(src)
	o := evid.Outcome{Key: fmt.Sprint(c.Position, "|", c.Expr, "|", c.Constant), NonTrivial: !c.Constant}
	where := fmt.Sprintf("%s.%s parameter %d", short(p.Pkg), p.Name, p.Index)
	if c.Constant {
		if len(errs) > 0 {
			// an unused-result error is not about the argument: calls are statements, so only report real ones
			return evid.Viol("control program for %s with the constant expression %s does not type-check: %v\n%s", where, c.Expr, errs[0], src)
		}
		o.Labels = append(o.Labels, "control-compiles")
		return o
	}
	if len(errs) == 0 {
		return evid.Viol("a client program passing a non-constant string (%s) to %s type-checks:\n%s", c.Expr, where, src)
	}
	// the error has to be at the generated call, about the argument type (not an accident elsewhere)
	found := false
	for _, e := range errs {
		msg := e.Error()
		if strings.Contains(msg, "stringConstant") || strings.Contains(msg, "cannot use") || strings.Contains(msg, "not exported") || strings.Contains(msg, "undefined") {
			found = true
		}
	}
	if !found {
		return evid.Viol("program for %s / %s is rejected, but not because of the argument: %v\n%s", where, c.Expr, errs, src)
	}
	o.Labels = append(o.Labels, "rejected:"+c.Expr)
	return o
}

func gen(t *rapid.T) Case {
	c := Case{Position: rapid.IntRange(0, len(positions)-1).Draw(t, "position")}
	c.Constant = rapid.IntRange(0, 4).Draw(t, "control") == 0
	if c.Constant {
		c.Expr = rapid.SampledFrom(sortedKeys(constExprs)).Draw(t, "cexpr")
	} else {
		c.Expr = rapid.SampledFrom(sortedKeys(nonConst)).Draw(t, "expr")
	}
	p := positions[c.Position]
	c.Where = fmt.Sprintf("%s.%s#%d", short(p.Pkg), p.Name, p.Index)
	return c
}

// TestPropMatrix: every position x every expression kind (complete).
func TestPropMatrix(t *testing.T) {
	shard, n := evid.Shard()
	var all []Case
	for i, p := range positions {
		w := fmt.Sprintf("%s.%s#%d", short(p.Pkg), p.Name, p.Index)
		for _, k := range sortedKeys(nonConst) {
			all = append(all, Case{Position: i, Where: w, Expr: k})
		}
		for _, k := range sortedKeys(constExprs) {
			all = append(all, Case{Position: i, Where: w, Expr: k, Constant: true})
		}
	}
	i := shard
	evid.RunEnum(t, "matrix", func() (Case, bool) {
		if i >= len(all) {
			return Case{}, false
		}
		c := all[i]
		i += n
		return c, true
	}, check)
	evid.SetExhaustive("matrix")
	evid.Label("matrix", "positions", int64(len(positions)))
}

func TestPropPrograms(t *testing.T) { evid.RunProp(t, "programs", 1, gen, check) }

// TestPropExpected: the positions the statement names must all be present (the enumeration cannot go vacuous when a
// parameter silently stops being constant-only).
func TestPropExpected(t *testing.T) {
	want := []string{
		"safehtml.IdentifierFromConstant#0", "safehtml.IdentifierFromConstantPrefix#0", "safehtml.ScriptFromConstant#0", "safehtml.ScriptFromDataAndConstant#0", "safehtml.ScriptFromDataAndConstant#2",
		"safehtml.StyleFromConstant#0", "safehtml.StyleSheetFromConstant#0", "safehtml.TrustedResourceURLFromConstant#0", "safehtml.TrustedResourceURLFormatFromConstant#0",
		"template.MakeTrustedTemplate#0", "template.TrustedSourceFromConstant#0", "template.TrustedSourceFromConstantDir#0", "template.TrustedSourceFromEnvVar#0", "template.MustParseAndExecuteToHTML#0",
		"template.ParseFiles#0", "template.ParseGlob#0", "template.Parse#0", "template.ParseFiles#0", "template.ParseGlob#0",
	}
	have := map[string]int{}
	for _, p := range positions {
		have[fmt.Sprintf("%s.%s#%d", short(p.Pkg), p.Name, p.Index)]++
	}
	for _, w := range want {
		if have[w] == 0 {
			c := Case{Position: -1, Where: w, Expr: "missing-position"}
			evid.Record("expected", c, evid.Viol("%s no longer takes a compile-time-constant-only parameter (it is named by the property)", w))
			fmt.Printf("FOUND property=C19 prop=expected replay=%s\n", evid.SaveFailure("expected"))
			t.Fatalf("%s is not a constant-only position any more; positions: %v", w, have)
		}
	}
	// methods: (*Template).Parse / ParseFiles / ParseGlob appear both as function and as method
	if have["template.ParseFiles#0"] < 2 || have["template.ParseGlob#0"] < 2 {
		t.Fatalf("Template.ParseFiles / ParseGlob methods missing: %v", have)
	}
	evid.Record("expected", Case{Where: "all-named-positions"}, evid.OK(true))
	evid.Record("expected", Case{Where: fmt.Sprint(len(positions), "-positions")}, evid.OK(true))
}

func TestReplay(t *testing.T) {
	evid.Replay(t, evid.R("matrix", check), evid.R("programs", check), evid.R("backdoor", checkBackdoor), evid.R("surface", checkSurface), evid.R("taint", checkTaint))
}
