package c19

import (
	"encoding/json"
	"flag"
	"fmt"
	"go/types"
	"os"
	"os/exec"
	"path/filepath"
	"reflect"
	"sort"
	"strings"
	"testing"
	"text/template/parse"

	"github.com/google/safehtml"
	"github.com/google/safehtml/template"

	"verif/evid"
)

// ---------- back doors: obtaining a safe-type value without a sanctioned constructor ----------

type BackdoorCase struct {
	Type  string `json:"type"`  // e.g. safehtml.HTML
	Trick string `json:"trick"` // name of the program family
}

var safeTypes = []string{"safehtml.HTML", "safehtml.Script", "safehtml.Style", "safehtml.StyleSheet", "safehtml.URL", "safehtml.TrustedResourceURL", "safehtml.Identifier", "safehtml.URLSet", "template.TrustedSource", "template.TrustedTemplate", "template.TrustedFS"}

// T = the type, O = another safe type of the same package
var tricks = map[string]string{
	"conversion-from-string": `_ = @T@(dyn)`,
	"conversion-from-named":  `_ = @T@(myString("x"))`,
	"composite-unkeyed":      `_ = @T@{dyn}`,
	"composite-keyed-str":    `_ = @T@{str: dyn}`,
	"composite-keyed-src":    `_ = @T@{src: dyn}`,
	"composite-keyed-tmpl":   `_ = @T@{tmpl: dyn}`,
	"field-assign-str":       "var v @T@\n\tv.str = dyn",
	"field-assign-src":       "var v @T@\n\tv.src = dyn",
	"pointer-conversion":     `_ = (*@T@)(ps)`,
	"struct-conversion":      `_ = @T@(struct{ str string }{dyn})`,
	"struct-conversion-src":  `_ = @T@(struct{ src string }{dyn})`,
	"embedding-promoted":     "type E struct{ @T@ }\n\tvar e E\n\te.str = dyn",
	"assign-string":          "var v @T@\n\tv = dyn\n\t_ = v",
	"assign-named":           "var v @T@ = myString(\"x\")\n\t_ = v",
	"unexported-raw":         `_ = PKG.htmlRaw(dyn)`,
	"unexported-type":        `var c PKG.stringConstant = "x"` + "\n\t_ = c",
	"cross-conversion":       `_ = @T@(@O@)`,
	"generic-inferred-const": `_ = conv(CONSTFN, dyn)`,
	// file names and glob patterns are programmer-controlled text as well: ParseFS takes them as plain strings
	"parsefs-runtime-pattern":        "var fsys @T@\n\t_, _ = template.ParseFS(fsys, dyn)",
	"parsefs-method-runtime-pattern": "var fsys @T@\n\t_, _ = template.New(\"r\").ParseFS(fsys, \"a\"+dyn)",
}

// known to compile on the pinned tree (language-level; recorded as known findings)
var knownCompiles = map[string]string{"cross-conversion": "K-crossconv", "generic-inferred-const": "K-generic", "parsefs-runtime-pattern": "K-parsefspattern", "parsefs-method-runtime-pattern": "K-parsefspattern"}

var otherValue = map[string]string{
	"safehtml": `safehtml.HTMLEscaped(dyn)`,
	"template": `template.TrustedTemplate{}`,
}

var constFn = map[string]string{
	"safehtml.Script": "safehtml.ScriptFromConstant", "safehtml.StyleSheet": "safehtml.StyleSheetFromConstant", "safehtml.Style": "safehtml.StyleFromConstant",
	"safehtml.TrustedResourceURL": "safehtml.TrustedResourceURLFromConstant", "safehtml.Identifier": "safehtml.IdentifierFromConstant",
	"template.TrustedSource": "template.TrustedSourceFromConstant", "template.TrustedTemplate": "template.MakeTrustedTemplate",
}

func (c BackdoorCase) source() (string, bool) {
	code, ok := tricks[c.Trick]
	if !ok {
		return "", false
	}
	pkg := c.Type[:strings.Index(c.Type, ".")]
	if c.Trick == "cross-conversion" {
		if c.Type == "safehtml.HTML" {
			code = strings.ReplaceAll(code, "@O@", `safehtml.URLSanitized(dyn)`)
		} else if pkg == "template" {
			if c.Type == "template.TrustedTemplate" {
				code = strings.ReplaceAll(code, "@O@", `struct{ tmpl string }{dyn}`)
			} else {
				return "", false
			}
		} else {
			code = strings.ReplaceAll(code, "@O@", otherValue[pkg])
		}
	}
	if strings.HasPrefix(c.Trick, "parsefs-") && c.Type != "template.TrustedFS" {
		return "", false
	}
	if c.Trick == "generic-inferred-const" {
		fn, ok := constFn[c.Type]
		if !ok {
			return "", false
		}
		code = strings.ReplaceAll(code, "CONSTFN", fn)
	}
	code = strings.ReplaceAll(strings.ReplaceAll(code, "@T@", c.Type), "PKG", pkg)
	src := strings.Replace(prelude, "func use(param string) {", "func conv[A ~string, R any](f func(A) R, s string) R { return f(A(s)) }\n\nfunc use(param string) {", 1)
	return src + "\t" + code + "\n}\n\nfunc main() { use(\"m\") }\n", true
}

func checkBackdoor(c BackdoorCase) evid.Outcome {
	src, ok := c.source()
	if !ok {
		return evid.Outcome{Skip: true}
	}
	errs := typeCheck(src)
	o := evid.Outcome{Key: c.Type + "|" + c.Trick, NonTrivial: true}
	if len(errs) > 0 {
		o.Labels = append(o.Labels, "rejected")
		return o
	}
	v := evid.Viol("a client program obtains a %s from a caller-supplied string without a sanctioned constructor (%s) and type-checks:\n%s", c.Type, c.Trick, src)
	if strings.HasPrefix(c.Trick, "parsefs-") {
		v = evid.Viol("a client program passes a run-time string as the file name / glob pattern of ParseFS (%s) and type-checks:\n%s", c.Trick, src)
	}
	v.Finding = knownCompiles[c.Trick]
	return v
}

func TestPropBackdoor(t *testing.T) {
	shard, n := evid.Shard()
	var all []BackdoorCase
	var names []string
	for k := range tricks {
		names = append(names, k)
	}
	sort.Strings(names)
	for _, ty := range safeTypes {
		for _, k := range names {
			all = append(all, BackdoorCase{ty, k})
		}
	}
	i := shard
	evid.RunEnum(t, "backdoor", func() (BackdoorCase, bool) {
		if i >= len(all) {
			return BackdoorCase{}, false
		}
		c := all[i]
		i += n
		return c, true
	}, checkBackdoor)
	evid.SetExhaustive("backdoor")
}

// ---------- API surface: everything exported that yields a safe-type value, against the reviewed list ----------

type SurfaceCase struct {
	Entry string `json:"entry"`
}

var safeTypeNames = map[string]bool{}

func init() {
	for _, t := range safeTypes {
		safeTypeNames[t] = true
	}
}

func yieldsSafeType(sig *types.Signature) bool {
	for i := 0; i < sig.Results().Len(); i++ {
		s := types.TypeString(sig.Results().At(i).Type(), qual)
		s = strings.TrimPrefix(s, "*")
		if safeTypeNames[s] {
			return true
		}
	}
	return false
}

func surface() []string {
	var out []string
	for _, path := range []string{pkgSafe, pkgTmpl} {
		pk := pkgs[path]
		sc := pk.Scope()
		for _, name := range sc.Names() {
			obj := sc.Lookup(name)
			switch o := obj.(type) {
			case *types.Func:
				if o.Exported() && yieldsSafeType(o.Type().(*types.Signature)) {
					out = append(out, types.ObjectString(o, qual))
				}
			case *types.Var:
				if o.Exported() {
					out = append(out, types.ObjectString(o, qual))
				}
			case *types.TypeName:
				full := pk.Name() + "." + o.Name()
				_, isString := o.Type().Underlying().(*types.Basic)
				if safeTypeNames[full] || o.IsAlias() && o.Exported() || (isString && o.Type().Underlying().(*types.Basic).Kind() == types.String) {
					exported := "exported"
					if !o.Exported() {
						exported = "unexported"
					}
					alias := ""
					if o.IsAlias() {
						alias = " alias"
					}
					out = append(out, fmt.Sprintf("type %s (%s%s) underlying %s", full, exported, alias, types.TypeString(o.Type().Underlying(), qual)))
				}
				if !o.Exported() {
					continue
				}
				ms := types.NewMethodSet(types.NewPointer(o.Type()))
				for i := 0; i < ms.Len(); i++ {
					f, ok := ms.At(i).Obj().(*types.Func)
					if ok && f.Exported() && yieldsSafeType(f.Type().(*types.Signature)) {
						out = append(out, "method "+types.ObjectString(f, qual))
					}
				}
			}
		}
	}
	sort.Strings(out)
	return out
}

var reviewed map[string]string // entry -> note (how its contents are controlled)

func loadReviewed() {
	if reviewed != nil {
		return
	}
	b, err := os.ReadFile(filepath.Join(harnessDir(), "policy", "reviewed_surface.json"))
	if err != nil {
		panic(err)
	}
	var f struct {
		Entries map[string]string `json:"entries"`
	}
	if err := json.Unmarshal(b, &f); err != nil {
		panic(err)
	}
	reviewed = f.Entries
}

func checkSurface(c SurfaceCase) evid.Outcome {
	loadReviewed()
	o := evid.Outcome{Key: c.Entry, NonTrivial: true}
	if _, ok := reviewed[c.Entry]; !ok {
		return evid.Viol("exported API through which a safe-type value can be obtained is not in the reviewed surface: %s", c.Entry)
	}
	return o
}

func TestPropSurface(t *testing.T) {
	if os.Getenv("VERIF_C19_DUMP_SURFACE") != "" {
		for _, e := range surface() {
			fmt.Println("SURFACE\t" + e)
		}
	}
	shard, n := evid.Shard()
	all := surface()
	i := shard
	evid.RunEnum(t, "surface", func() (SurfaceCase, bool) {
		if i >= len(all) {
			return SurfaceCase{}, false
		}
		c := SurfaceCase{all[i]}
		i += n
		return c, true
	}, checkSurface)
	evid.SetExhaustive("surface")
}

// ---------- dynamic taint: constructors that take run-time strings never return them verbatim ----------

type strFlag string

func (s strFlag) String() string   { return string(s) }
func (s strFlag) Set(string) error { return nil }

var _ flag.Value = strFlag("")

type TaintCase struct {
	Adapter string `json:"adapter"`
	Payload string `json:"payload"`
}

var adapters = map[string]func(p string) (string, error){
	"HTMLEscaped":     func(p string) (string, error) { return safehtml.HTMLEscaped(p).String(), nil },
	"URLSanitized":    func(p string) (string, error) { return safehtml.URLSanitized(p).String(), nil },
	"URLSetSanitized": func(p string) (string, error) { return safehtml.URLSetSanitized(p).String(), nil },
	"StyleFromProperties.Color": func(p string) (string, error) {
		return safehtml.StyleFromProperties(safehtml.StyleProperties{Color: p}).String(), nil
	},
	"StyleFromProperties.FontFamily": func(p string) (string, error) {
		return safehtml.StyleFromProperties(safehtml.StyleProperties{FontFamily: []string{p}}).String(), nil
	},
	"StyleFromProperties.BackgroundImageURLs": func(p string) (string, error) {
		return safehtml.StyleFromProperties(safehtml.StyleProperties{BackgroundImageURLs: []string{p}}).String(), nil
	},
	"CSSRule.selector": func(p string) (string, error) {
		s, err := safehtml.CSSRule(p, safehtml.StyleFromConstant("color:red;"))
		return s.String(), err
	},
	"IdentifierFromConstantPrefix.value": func(p string) (s string, err error) {
		defer func() {
			if recover() != nil {
				err = fmt.Errorf("panicked (documented refusal)")
			}
		}()
		return safehtml.IdentifierFromConstantPrefix("p", p).String(), nil
	},
	"ScriptFromDataAndConstant.data": func(p string) (string, error) {
		s, err := safehtml.ScriptFromDataAndConstant("myVar", p, "use(myVar);")
		return s.String(), err
	},
	"TrustedResourceURLFormatFromConstant.args": func(p string) (string, error) {
		s, err := safehtml.TrustedResourceURLFormatFromConstant("https://h/p/%{a}", map[string]string{"a": p})
		return s.String(), err
	},
	"TrustedResourceURLAppend.s": func(p string) (string, error) {
		s, err := safehtml.TrustedResourceURLAppend(safehtml.TrustedResourceURLFromConstant("https://h/p/"), p)
		return s.String(), err
	},
	"TrustedResourceURLWithParams.params": func(p string) (string, error) {
		return safehtml.TrustedResourceURLWithParams(safehtml.TrustedResourceURLFromConstant("https://h/p"), map[string]string{p: p}).String(), nil
	},
	"TrustedSourceFromConstantDir.filename": func(p string) (string, error) {
		s, err := template.TrustedSourceFromConstantDir("dir", template.TrustedSourceFromConstant("src"), p)
		return s.String(), err
	},
	"Template.ExecuteToHTML.data": func(p string) (string, error) {
		t := template.Must(template.New("t").Parse(`<p title="{{.}}">{{.}}</p><a href="{{.}}">x</a>`))
		h, err := t.ExecuteToHTML(p)
		return h.String(), err
	},
	"Template.ExecuteTemplateToHTML.data": func(p string) (string, error) {
		t := template.Must(template.New("t").Parse(`{{define "x"}}<textarea>{{.}}</textarea>{{end}}`))
		h, err := t.ExecuteTemplateToHTML("x", p)
		return h.String(), err
	},
}

func treeOverwrite(p string, clone bool) (string, error) {
	// the exported field Template.Tree can be assigned by a client; it must stay inert
	t := template.Must(template.New("t").Parse(`<p>x</p>`))
	trees, err := parse.Parse("t", "<p>"+strings.ReplaceAll(p, "{{", "")+"</p>", "", "")
	if err != nil {
		return "", err
	}
	t.Tree = trees["t"]
	if clone {
		c, err := t.Clone()
		if err != nil {
			return "", err
		}
		t = c
	}
	h, err := t.ExecuteToHTML(nil)
	return h.String(), err
}

// zeroFS: the zero value of the exported struct TrustedFS must not be a usable file system
func zeroFS(p string, sub bool) (out string, err error) {
	defer func() {
		if r := recover(); r != nil {
			err = fmt.Errorf("panicked: %v", r)
		}
	}()
	name := "zz_verif_payload.tmpl"
	if werr := os.WriteFile(name, []byte("<p>"+strings.ReplaceAll(p, "{{", "")+"</p>"), 0o644); werr != nil {
		return "", werr
	}
	defer os.Remove(name)
	fsys := template.TrustedFS{}
	if sub {
		// (not ".": fs.Sub hands the file system itself back for it)
		fsys, err = fsys.Sub(template.TrustedSourceFromConstant("d"))
		if err != nil {
			return "", err
		}
	}
	t, err := template.ParseFS(fsys, name)
	if err != nil {
		return "", err
	}
	h, err := t.ExecuteToHTML(nil)
	return h.String(), err
}

type rawJSON struct{ s string }

func (r rawJSON) MarshalJSON() ([]byte, error) { return []byte(r.s), nil }

func init() {
	adapters["TrustedFS{};ParseFS(run-time file name)"] = func(p string) (string, error) { return zeroFS(p, false) }
	adapters["TrustedFS{}.Sub;ParseFS(run-time file name)"] = func(p string) (string, error) { return zeroFS(p, true) }
	adapters["ScriptFromDataAndConstant.data=json.RawMessage"] = func(p string) (string, error) {
		b, _ := json.Marshal(p)
		raw := json.RawMessage(strings.ReplaceAll(strings.ReplaceAll(string(b), "\\u003c", "<"), "\\u003e", ">"))
		s, err := safehtml.ScriptFromDataAndConstant("myVar", raw, "use(myVar);")
		return s.String(), err
	}
	adapters["ScriptFromDataAndConstant.data=json.Marshaler"] = func(p string) (string, error) {
		b, _ := json.Marshal(p)
		s, err := safehtml.ScriptFromDataAndConstant("myVar", map[string]interface{}{"k": rawJSON{strings.ReplaceAll(string(b), "\\u003c", "<")}}, "use(myVar);")
		return s.String(), err
	}
	adapters["Template.Tree=parse(data);ExecuteToHTML"] = func(p string) (string, error) { return treeOverwrite(p, false) }
	adapters["Template.Tree=parse(data);Clone;ExecuteToHTML"] = func(p string) (string, error) { return treeOverwrite(p, true) }
}

// knownAdapters: doors that are open on the pinned tree by API design (recorded as known findings)
var knownAdapters = map[string]string{}

// clientFlag is what any client program can write: a flag.Value around a run-time string, registered nowhere.
type clientFlag struct{ s string }

func (f *clientFlag) String() string   { return f.s }
func (f *clientFlag) Set(string) error { return nil }

func treeMutate(p string, how string) (string, error) {
	p = strings.ReplaceAll(p, "{{", "")
	node := &parse.TextNode{NodeType: parse.NodeText, Text: []byte(p)}
	switch how {
	case "append":
		t := template.Must(template.New("t").Parse(`<b>x</b>`))
		t.Tree.Root.Nodes = append(t.Tree.Root.Nodes, node)
		h, err := t.ExecuteToHTML(nil)
		return h.String(), err
	case "root":
		trees, err := parse.Parse("t", "<p>"+p+"</p>", "", "")
		if err != nil {
			return "", err
		}
		t := template.Must(template.New("t").Parse(`constant`))
		t.Tree.Root = trees["t"].Root
		h, err := t.ExecuteToHTML(nil)
		return h.String(), err
	case "lookup":
		root := template.Must(template.New("root").Parse(`{{define "part"}}<i>x</i>{{end}}<p>{{template "part"}}</p>`))
		root.Lookup("part").Tree.Root.Nodes = []parse.Node{node}
		h, err := root.ExecuteToHTML(nil)
		return h.String(), err
	default: // an action added after the analysis prints its data without a sanitizer
		t := template.Must(template.New("t").Parse(`<p>{{.}}</p>`))
		if _, err := t.ExecuteToHTML("warm-up"); err != nil {
			return "", err
		}
		trees, err := parse.Parse("x", "{{.}}", "", "")
		if err != nil {
			return "", err
		}
		t.Tree.Root.Nodes = append(t.Tree.Root.Nodes, trees["x"].Root.Nodes...)
		h, err := t.ExecuteToHTML(p)
		return h.String(), err
	}
}

// viaReflect calls a constructor whose parameter is the unexported constant type with a run-time string converted
// by package reflect (no unsafe, no generics).
func viaReflect(fn interface{}, p string) (out reflect.Value, err error) {
	defer func() {
		if r := recover(); r != nil {
			err = fmt.Errorf("panicked: %v", r)
		}
	}()
	f := reflect.ValueOf(fn)
	arg := reflect.ValueOf(p).Convert(f.Type().In(0))
	return f.Call([]reflect.Value{arg})[0], nil
}

func init() {
	for _, how := range []string{"append", "root", "lookup", "after-execution"} {
		how := how
		name := "Template.Tree mutated through the pointer (" + how + ");ExecuteToHTML"
		adapters[name] = func(p string) (string, error) { return treeMutate(p, how) }
		knownAdapters[name] = "K-treefield"
	}
	flagAdapters := map[string]func(p string) (string, error){
		"client flag.Value;TrustedResourceURLFromFlag": func(p string) (string, error) {
			return safehtml.TrustedResourceURLFromFlag(&clientFlag{p}).String(), nil
		},
		"client flag.Value;TrustedResourceURLFormatFromFlag": func(p string) (string, error) {
			u, err := safehtml.TrustedResourceURLFormatFromFlag(&clientFlag{"https://h/" + p}, nil)
			return u.String(), err
		},
		"client flag.Value;TrustedSourceFromFlag": func(p string) (string, error) {
			return template.TrustedSourceFromFlag(&clientFlag{p}).String(), nil
		},
	}
	for name, f := range flagAdapters {
		adapters[name] = f
		knownAdapters[name] = "K-flagvalue"
	}
	reflectAdapters := map[string]func(p string) (string, error){
		"reflect.Convert to the constant type;ScriptFromConstant": func(p string) (string, error) {
			v, err := viaReflect(safehtml.ScriptFromConstant, p)
			if err != nil {
				return "", err
			}
			return v.Interface().(safehtml.Script).String(), nil
		},
		"reflect.Convert to the constant type;TrustedResourceURLFromConstant": func(p string) (string, error) {
			v, err := viaReflect(safehtml.TrustedResourceURLFromConstant, p)
			if err != nil {
				return "", err
			}
			return v.Interface().(safehtml.TrustedResourceURL).String(), nil
		},
		"reflect.Convert to the constant type;MakeTrustedTemplate;ParseFromTrustedTemplate;ExecuteToHTML": func(p string) (string, error) {
			v, err := viaReflect(template.MakeTrustedTemplate, "<p>"+strings.ReplaceAll(p, "{{", "")+"</p>")
			if err != nil {
				return "", err
			}
			t, err := template.New("t").ParseFromTrustedTemplate(v.Interface().(template.TrustedTemplate))
			if err != nil {
				return "", err
			}
			h, err := t.ExecuteToHTML(nil)
			return h.String(), err
		},
	}
	for name, f := range reflectAdapters {
		adapters[name] = f
		knownAdapters[name] = "K-reflect"
	}
}

var taintPayloads = []string{"<script>alert(1)</script>\"'&", "javascript:alert(1)//\"><svg onload=x>", "x\" onmouseover=\"y<", "../..//evil\\..\\\x00<", "{}</style><script>", "\n</textarea><b>"}

var pathPayloads = []string{"../x", "a/b", "..", "x/../../y", "a:b", "/etc/passwd"}
var urlPayloads = []string{"javascript:alert(1)", "JaVaScRiPt:alert(1)//", "\tjavascript:x", "java\nscript:x", "&#106;avascript:x"}
var truPayloads = []string{"../x", "//evil.example/", "?a=b", "#f", "/..", "a/b", "%2e%2e/"}
var cssPayloads = []string{"\"}</style><script>", "x\";y:z{<", "\"expression(1)<", "\"><", "\\\"<url(javascript:x)", "\"/* */ <"}
var scriptPayloads = []string{"</script><!--", "\u2028<", "<script>&", "-->"}
var identPayloads = []string{"a b", "x\"", "a\n", "é", "<"}

// payloadsFor: hostile strings for the context the adapter's result type is meant for.
func payloadsFor(adapter string) []string {
	switch {
	case strings.HasPrefix(adapter, "TrustedSourceFromConstantDir"):
		return pathPayloads
	case strings.HasPrefix(adapter, "URL"), strings.Contains(adapter, "BackgroundImageURLs"):
		return urlPayloads
	case strings.HasPrefix(adapter, "TrustedResourceURL"):
		return truPayloads
	case strings.HasPrefix(adapter, "StyleFromProperties"), strings.HasPrefix(adapter, "CSSRule"):
		return cssPayloads
	case strings.HasPrefix(adapter, "ScriptFromDataAndConstant"):
		return scriptPayloads
	case strings.HasPrefix(adapter, "IdentifierFromConstantPrefix"):
		return identPayloads
	}
	return taintPayloads
}

func checkTaint(c TaintCase) evid.Outcome {
	f, ok := adapters[c.Adapter]
	if !ok {
		return evid.Outcome{Skip: true}
	}
	out, err := f(c.Payload)
	o := evid.Outcome{Key: c.Adapter + "|" + c.Payload, NonTrivial: true}
	if err != nil {
		o.Labels = append(o.Labels, "refused")
		if strings.HasPrefix(err.Error(), "panicked:") {
			return evid.Viol("%s panicked on the payload %q: %v", c.Adapter, c.Payload, err)
		}
		if out != "" {
			return evid.Viol("%s refused the payload %q (%v) and still returned a non-zero safe-type value: %q", c.Adapter, c.Payload, err, out)
		}
		return o
	}
	if strings.Contains(out, c.Payload) {
		v := evid.Viol("%s returned a safe-type value containing the caller-supplied string verbatim: payload %q result %q", c.Adapter, c.Payload, out)
		v.Finding = knownAdapters[c.Adapter]
		return v
	}
	return o
}

func TestPropTaint(t *testing.T) {
	var names []string
	for k := range adapters {
		names = append(names, k)
	}
	sort.Strings(names)
	var all []TaintCase
	for _, a := range names {
		for _, p := range payloadsFor(a) {
			all = append(all, TaintCase{a, p})
		}
	}
	shard, n := evid.Shard()
	i := shard
	evid.RunEnum(t, "taint", func() (TaintCase, bool) {
		if i >= len(all) {
			return TaintCase{}, false
		}
		c := all[i]
		i += n
		return c, true
	}, checkTaint)
	evid.SetExhaustive("taint")
}

// ---------- cross-check by real builds (sampled) ----------

func TestPropRealBuild(t *testing.T) {
	shard, _ := evid.Shard()
	if shard != 0 {
		return
	}
	dir, err := os.MkdirTemp("", "verifc19")
	if err != nil {
		t.Skip(err)
	}
	defer os.RemoveAll(dir)
	// the library tree under test: /repo, or the scratch tree that bin/try-mutant points to
	lib := os.Getenv("VERIF_LIBROOT")
	if lib == "" {
		lib = "/repo"
	}
	gomod := "module client\n\ngo 1.23\n\nrequire github.com/google/safehtml v0.0.0\n\nreplace github.com/google/safehtml => " + lib + "\n"
	os.WriteFile(filepath.Join(dir, "go.mod"), []byte(gomod), 0o644)
	if b, err := os.ReadFile(lib + "/go.sum"); err == nil {
		os.WriteFile(filepath.Join(dir, "go.sum"), b, 0o644)
	}
	build := func(src string) bool {
		os.WriteFile(filepath.Join(dir, "main.go"), []byte(src), 0o644)
		cmd := exec.Command("go", "build", "-o", os.DevNull, ".")
		cmd.Dir = dir
		cmd.Env = goEnv()
		return cmd.Run() == nil
	}
	n := 0
	step := len(positions)/3 + 1
	for i := 0; i < len(positions); i += step {
		for _, c := range []Case{{Position: i, Expr: "variable"}, {Position: i, Expr: "literal", Constant: true}, {Position: i, Expr: "concat-variable"}} {
			src, ok := c.source()
			if !ok {
				continue
			}
			tc := len(typeCheck(src)) == 0
			real := build(src)
			n++
			if tc != real {
				c.Where = "real-build-disagrees"
				evid.Record("realbuild", c, evid.Viol("go/types and go build disagree on program (types ok=%v, build ok=%v):\n%s", tc, real, src))
				fmt.Printf("FOUND property=C19 prop=realbuild replay=%s\n", evid.SaveFailure("realbuild"))
				t.Fatalf("go/types and go build disagree")
			}
			evid.Record("realbuild", c, evid.OK(true))
		}
	}
	// importing the internal raw package from outside the module must not build
	internal := "package main\n\nimport \"github.com/google/safehtml/internal/raw\"\n\nfunc main() { _ = raw.HTML }\n"
	if build(internal) {
		c := Case{Where: "internal-import"}
		evid.Record("realbuild", c, evid.Viol("a client outside the module can import github.com/google/safehtml/internal/raw"))
		fmt.Printf("FOUND property=C19 prop=realbuild replay=%s\n", evid.SaveFailure("realbuild"))
		t.Fatalf("internal import builds")
	}
	evid.Record("realbuild", Case{Where: "internal-import-rejected"}, evid.OK(true))
}
