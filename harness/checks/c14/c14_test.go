// C14: data interpolated after a static URL prefix stays inside its URL component.
package c14

import (
	"fmt"
	"html"
	"strings"
	"testing"

	"pgregory.net/rapid"

	"verif/evid"
	"verif/gen/strs"
	"verif/oracle/htmltok"
	"verif/oracle/rfc3986"
	"verif/oracle/whaturl"
	"verif/tx"
)

func TestMain(m *testing.M) { evid.Main(m, "C14") }

type attrCtx struct {
	ID, Pre, Post, Attr, Class string // Pre+`="`+value+`"`+Post
}

var ctxs = []attrCtx{
	{"form-action", `<form action=`, `>`, "action", "URL"},
	{"button-formaction", `<button formaction=`, `>`, "formaction", "URL"},
	{"a-href", `<a href=`, `>`, "href", "URLish"},
	{"img-src", `<img src=`, `>`, "src", "URLish"},
	{"area-href", `<area href=`, `>`, "href", "URLish"},
	{"link-icon", `<link rel="icon" href=`, `>`, "href", "URLish"},
	{"video-src", `<video src=`, `></video>`, "src", "URLish"},
	{"script-src", `<script src=`, `></script>`, "src", "TRU"},
	{"iframe-src", `<iframe src=`, `></iframe>`, "src", "TRU"},
	{"link-stylesheet", `<link rel="stylesheet" href=`, `>`, "href", "TRU"},
	{"frame-src", `<frame src=`, `>`, "src", "TRU"},
}

type Case struct {
	Ctx    string    `json:"ctx"`
	Quote  string    `json:"quote"` // " or '
	Prefix evid.BStr `json:"prefix"`
	Suffix evid.BStr `json:"suffix"`
	Pipe   string    `json:"pipe"` // "", " | urlquery", " | html", " | print"
	Data   evid.BStr `json:"data"`
	// Mode: how the static prefix is written. "" plain; "same" {{if .C}}P{{else}}P{{end}}; "hidden" {{if .C}}{{else}}P{{end}};
	// "nested" {{if .C}}P{{else}}{{if .D}}P{{else}}P2{{end}}{{end}}; "nestedhidden" {{if .C}}{{else}}{{if .D}}{{else}}P{{end}}{{end}}
	Mode    string    `json:"mode,omitempty"`
	Prefix2 evid.BStr `json:"prefix2,omitempty"`
	C       bool      `json:"c,omitempty"`
	D       bool      `json:"d,omitempty"`
}

func ctxByID(id string) *attrCtx {
	for i := range ctxs {
		if ctxs[i].ID == id {
			return &ctxs[i]
		}
	}
	return nil
}

func (c Case) prefixText() string {
	p, p2 := string(c.Prefix), string(c.Prefix2)
	switch c.Mode {
	case "same":
		return "{{if .C}}" + p + "{{else}}" + p + "{{end}}"
	case "hidden":
		return "{{if .C}}{{else}}" + p + "{{end}}"
	case "nested":
		return "{{if .C}}" + p + "{{else}}{{if .D}}" + p + "{{else}}" + p2 + "{{end}}{{end}}"
	case "nestedhidden":
		return "{{if .C}}{{else}}{{if .D}}{{else}}" + p + "{{end}}{{end}}"
	}
	return p
}

// effective returns the static prefix that is actually rendered for the branch choices.
func (c Case) effective() Case {
	e := c
	e.Mode, e.Prefix2 = "", ""
	switch c.Mode {
	case "hidden":
		if c.C {
			e.Prefix = ""
		}
	case "nested":
		if !c.C && !c.D {
			e.Prefix = c.Prefix2
		}
	case "nestedhidden":
		if c.C || c.D {
			e.Prefix = ""
		}
	case "recsep":
		e.Prefix = c.Prefix + "a" + c.Prefix2
	}
	return e
}

func (c Case) template(cx *attrCtx) string {
	switch c.Mode {
	case "helper":
		// the second half of the static prefix comes from a text-only helper that an earlier element of the same
		// kind has already called after another prefix
		p := string(c.Prefix)
		k := len(p) / 2
		for k < len(p) && p[k]&0xC0 == 0x80 {
			k++
		}
		return `{{define "hp"}}` + p[k:] + `{{end}}` + cx.Pre + c.Quote + "/zz/" + `{{template "hp"}}` + c.Quote + cx.Post +
			cx.Pre + c.Quote + p[:k] + `{{template "hp"}}` + "{{.V" + c.Pipe + "}}" + string(c.Suffix) + c.Quote + cx.Post
	case "recsep":
		// a helper that emits a datum and, behind static text (Prefix2), calls itself for the next one: the datum
		// under test is the second one, its static prefix is Prefix + "a" + Prefix2
		return `{{define "hr"}}{{.V` + c.Pipe + `}}{{if .N}}` + string(c.Prefix2) + `{{template "hr" .N}}{{end}}{{end}}` +
			cx.Pre + c.Quote + string(c.Prefix) + `{{template "hr" .}}` + string(c.Suffix) + c.Quote + cx.Post
	case "rec":
		// the action sits in a helper that calls itself and also holds the rest of the attribute
		return `{{define "hr"}}{{.V` + c.Pipe + `}}{{if .N}}{{template "hr" .N}}{{end}}` + string(c.Suffix) + c.Quote + cx.Post + `{{end}}` +
			cx.Pre + c.Quote + string(c.Prefix) + `{{template "hr" .}}`
	case "recbal":
		return `{{define "hr"}}{{.V` + c.Pipe + `}}{{if .N}}{{template "hr" .N}}{{end}}{{end}}` +
			cx.Pre + c.Quote + string(c.Prefix) + `{{template "hr" .}}` + string(c.Suffix) + c.Quote + cx.Post
	}
	return cx.Pre + c.Quote + c.prefixText() + "{{.V" + c.Pipe + "}}" + string(c.Suffix) + c.Quote + cx.Post
}

// decodeAttr decodes static attribute text the way a browser does inside an attribute value.
func decodeAttr(s, quote string) (string, bool) {
	r := htmltok.Tokenize([]byte("<a href="+quote+s+quote+">"), htmltok.Options{})
	if len(r.Tokens) != 1 || r.Tokens[0].Kind != htmltok.StartTag || len(r.Tokens[0].Attrs) != 1 || r.Final.State != "Data" {
		return "", false
	}
	return r.Tokens[0].Attrs[0].Value, true
}

// hasWSorCtl: ASCII whitespace, C0 controls and DEL (what a URL parser strips or rejects).
func hasWSorCtl(s string) bool {
	for i := 0; i < len(s); i++ {
		if s[i] <= 0x20 || s[i] == 0x7f {
			return true
		}
	}
	// (white space and control characters outside ASCII - NEL, NBSP, LINE SEPARATOR ... - are generated as prefix
	// pieces but not demanded to be refused: URL parsers strip only ASCII white space and C0 controls, which is what
	// the rule is about; see Appendix A)
	return false
}

// endsInPartialCharRef: "&", "&name-chars", "&#", "&#digits", "&#x", "&#xhex" at the very end.
func endsInPartialCharRef(s string) bool {
	i := strings.LastIndexByte(s, '&')
	if i < 0 {
		return false
	}
	t := s[i+1:]
	if t == "" {
		return true
	}
	al := func(c byte) bool { return 'a' <= c && c <= 'z' || 'A' <= c && c <= 'Z' }
	dg := func(c byte) bool { return '0' <= c && c <= '9' }
	if t[0] == '#' {
		t = t[1:]
		if t != "" && (t[0] == 'x' || t[0] == 'X') {
			for _, c := range []byte(t[1:]) {
				if !(dg(c) || 'a' <= c|32 && c|32 <= 'f') {
					return false
				}
			}
			return true
		}
		for _, c := range []byte(t) {
			if !dg(c) {
				return false
			}
		}
		return true
	}
	if !al(t[0]) {
		return false
	}
	for _, c := range []byte(t) {
		if !(al(c) || dg(c)) {
			return false
		}
	}
	return true
}

func endsInPartialPercent(d string) bool {
	n := len(d)
	hex := func(c byte) bool { return '0' <= c && c <= '9' || 'a' <= c|32 && c|32 <= 'f' }
	return n >= 1 && d[n-1] == '%' || n >= 2 && d[n-2] == '%' && hex(d[n-1])
}

func completeScheme(d string) (string, bool) {
	if d == "" || !('a' <= d[0]|32 && d[0]|32 <= 'z') {
		return "", false
	}
	for i := 0; i < len(d); i++ {
		c := d[i]
		switch {
		case 'a' <= c|32 && c|32 <= 'z', '0' <= c && c <= '9', c == '+', c == '-', c == '.':
		case c == ':':
			return strings.ToLower(d[:i]), true
		default:
			return "", false
		}
	}
	return "", false
}

// safeTRUPrefix: independent recogniser (same notion as in C13).
func safeTRUPrefix(s string) bool {
	fold := func(p string) bool { return len(s) >= len(p) && strings.EqualFold(s[:len(p)], p) }
	rest := s
	switch {
	case fold("https://"):
		rest = s[8:]
	case strings.HasPrefix(s, "//"):
		rest = s[2:]
	case fold("about:blank#"):
		return true
	case strings.HasPrefix(s, "/"):
		return len(s) >= 2 && s[1] != '/' && s[1] != '\\'
	default:
		return false
	}
	i := strings.IndexByte(rest, '/')
	if i <= 0 {
		return false
	}
	for k := 0; k < i; k++ {
		c := rest[k]
		if c <= 0x20 || c == 0x7f || strings.IndexByte("@\\?#%<>^|`{}\"'", c) >= 0 {
			return false
		}
	}
	return true
}

// mustReject: the statement's acceptance side. Returns a reason or "".
func mustReject(cx *attrCtx, c Case) string {
	p := string(c.Prefix)
	if p == "" {
		return ""
	}
	if hasWSorCtl(p) {
		return "prefix contains whitespace or control characters"
	}
	if endsInPartialCharRef(p) {
		return "prefix ends in a partial character reference"
	}
	d, ok := decodeAttr(p, c.Quote)
	if !ok {
		return ""
	}
	if hasWSorCtl(d) {
		return "prefix contains whitespace or control characters written as character references"
	}
	if endsInPartialPercent(d) {
		return "prefix ends in a partial percent escape"
	}
	if cx.Class == "TRU" {
		if !safeTRUPrefix(d) {
			return "prefix is not a TrustedResourceURL prefix"
		}
		return ""
	}
	if sc, ok := completeScheme(d); ok {
		if sc == "javascript" {
			return "prefix has the javascript scheme"
		}
		return ""
	}
	if !strings.ContainsAny(d, "/?#") {
		return "prefix could still be completed into a scheme"
	}
	return ""
}

func normalizeRef(m string) string {
	var b strings.Builder
	for i := 0; i < len(m); i++ {
		c := m[i]
		switch {
		case rfc3986.Unreserved(c), strings.IndexByte("!#$&*+,/:;=?@[]", c) >= 0:
			b.WriteByte(c)
		case c == '%' && rfc3986.IsEscape(m, i):
			b.WriteByte(c)
		default:
			fmt.Fprintf(&b, "%%%02x", c)
		}
	}
	return b.String()
}

func plusDecode(s string) string { return rfc3986.Decode(strings.ReplaceAll(s, "+", " ")) }

func check(c Case) evid.Outcome {
	o := check0(c)
	if o.Violation != "" && c.Mode == "recsep" && strings.Contains(o.Violation, "partial") && strings.HasSuffix(string(c.Prefix2), "&") {
		// what is left of K-mangle after F-openprefix: a bare "&" at the end of the static text in front of a call is
		// not looked at again (query strings are written like that: TestEscapeSet), so the character reference that
		// the datum completes goes unnoticed
		o.Finding = "K-mangle"
	}
	if o.Violation != "" && o.Finding == "" {
		// the engine decodes static text with html.UnescapeString; where that differs from a browser's
		// attribute-value decoding of the same prefix the violation belongs to the known finding K-unescape
		if dB, ok := decodeAttr(string(c.Prefix), c.Quote); ok && dB != html.UnescapeString(string(c.Prefix)) && !endsInPartialCharRef(string(c.Prefix)) && !hasWSorCtl(string(c.Prefix)) {
			o.Finding = "K-unescape"
		}
	}
	return o
}

func check0(c Case) evid.Outcome {
	cx := ctxByID(c.Ctx)
	if cx == nil || (c.Quote != `"` && c.Quote != `'`) || strings.Contains(string(c.Prefix)+string(c.Suffix), c.Quote) || strings.Contains(string(c.Prefix)+string(c.Suffix), "{{") {
		return evid.Outcome{Skip: true}
	}
	text := c.template(cx)
	datum := string(c.Data)
	o := evid.Outcome{}
	if strings.Contains(string(c.Prefix2), c.Quote) || strings.Contains(string(c.Prefix2), "{{") {
		return evid.Outcome{Skip: true}
	}
	if c.Mode != "" {
		o.Labels = append(o.Labels, "conditional-prefix:"+c.Mode)
	}
	cond := c
	c = c.effective() // the predicates below are about the prefix that is actually rendered
	t, perr := tx.Parse(text)
	if perr != nil {
		o.Skip = true
		o.Labels = append(o.Labels, "parse-error")
		return o
	}
	data := map[string]interface{}{"V": datum, "C": cond.C, "D": cond.D}
	if cond.Mode == "recsep" {
		data = map[string]interface{}{"V": "a", "N": map[string]interface{}{"V": datum}}
	}
	out, err := tx.Exec(t, data)
	why := mustReject(cx, c)
	if err != nil {
		o.Labels = append(o.Labels, "rejected")
		if why != "" {
			o.Labels = append(o.Labels, "rejected-as-required")
			o.NonTrivial = true
		}
		return o
	}
	if why != "" {
		v := evid.Viol("template %q accepted (output %q) although its static %s", text, out, why)
		if dB, ok := decodeAttr(string(c.Prefix), c.Quote); ok && dB != html.UnescapeString(string(c.Prefix)) && !endsInPartialCharRef(string(c.Prefix)) && !hasWSorCtl(string(c.Prefix)) {
			v.Finding = "K-unescape"
		}
		return v
	}
	o.Labels = append(o.Labels, "accepted")
	if cond.Mode == "helper" {
		// the first element is static text and comes out as written: judge the second one
		p := string(cond.Prefix)
		k := len(p) / 2
		for k < len(p) && p[k]&0xC0 == 0x80 {
			k++
		}
		first := cx.Pre + c.Quote + "/zz/" + p[k:] + c.Quote + cx.Post
		if !strings.HasPrefix(out, first) {
			return evid.Viol("template %q: the static first element is not emitted as written: output %q", text, out)
		}
		out = out[len(first):]
	}
	// locate the value
	r := htmltok.Tokenize([]byte(out), htmltok.Options{})
	var av *htmltok.Attr
	if len(r.Tokens) >= 1 && r.Tokens[0].Kind == htmltok.StartTag {
		for i := range r.Tokens[0].Attrs {
			if r.Tokens[0].Attrs[i].Name == cx.Attr {
				av = &r.Tokens[0].Attrs[i]
			}
		}
	}
	rb := htmltok.Tokenize([]byte(strings.Replace(c.template(cx), "{{.V"+c.Pipe+"}}", "zq", 1)), htmltok.Options{})
	if av == nil || strings.Join(htmltok.Skeleton(r), "") != strings.Join(htmltok.Skeleton(rb), "") || r.Final != rb.Final {
		return evid.Viol("template %q data %q: output %q does not keep the tag structure", text, datum, out)
	}
	dP, ok1 := decodeAttr(string(c.Prefix), c.Quote)
	dS, ok2 := decodeAttr(string(c.Suffix), c.Quote)
	if !ok1 || !ok2 {
		o.Skip = true
		return o
	}
	v := av.Value
	if !strings.HasPrefix(v, dP) || !strings.HasSuffix(v[len(dP):], dS) {
		return evid.Viol("template %q data %q: attribute value %q is not decoded-prefix %q + data + decoded-suffix %q", text, datum, v, dP, dS)
	}
	m := v[len(dP) : len(v)-len(dS)]
	for i := 0; i < len(datum); i++ {
		if !rfc3986.Unreserved(datum[i]) {
			o.NonTrivial = true
		}
	}
	inQuery := strings.ContainsAny(dP, "?#")
	switch {
	case dP == "":
		// no static prefix: whole-URL sanitization (C02/C11 territory); only the component-independent guarantees
		o.Labels = append(o.Labels, "no-prefix")
		if cx.Class == "TRU" {
			return evid.Viol("template %q: a plain string was accepted as a whole TrustedResourceURL: %q", text, out)
		}
		if whaturl.IsJavascript(v) {
			return evid.Viol("template %q data %q: javascript: URL %q", text, datum, v)
		}
	case inQuery || cx.Class == "TRU":
		if inQuery {
			o.Labels = append(o.Labels, "query-or-fragment")
		} else {
			o.Labels = append(o.Labels, "tru-path")
		}
		for i := 0; i < len(m); i++ {
			if !(rfc3986.Unreserved(m[i]) || rfc3986.IsEscape(m, i) || (i >= 1 && rfc3986.IsEscape(m, i-1)) || (i >= 2 && rfc3986.IsEscape(m, i-2)) || (c.Pipe == " | urlquery" && m[i] == '+')) {
				vi := evid.Viol("template %q data %q: in the query/fragment or after a TrustedResourceURL prefix the data must be fully percent-encoded, got %q (byte %q)", text, datum, m, m[i])
				if dP != html.UnescapeString(string(c.Prefix)) {
					vi.Finding = "K-unescape"
				}
				return vi
			}
		}
		dec := rfc3986.Decode(m)
		if c.Pipe == " | urlquery" {
			dec = plusDecode(m)
		}
		if dec != datum && c.Pipe != " | html" {
			return evid.Viol("template %q data %q: percent-decoding the emitted part %q gives %q, not the data", text, datum, m, dec)
		}
		if cx.Class == "TRU" && !inQuery {
			// the data-bearing path segment must not render as a double-dot segment
			full := dP + m + dS
			path := full
			if k := strings.IndexAny(path, "?#"); k >= 0 {
				path = path[:k]
			}
			start := strings.LastIndexByte(dP, '/') + 1
			end := len(dP) + len(m)
			if k := strings.IndexByte(path[min(end, len(path)):], '/'); k >= 0 {
				end = min(end, len(path)) + k
			} else {
				end = len(path)
			}
			if start <= end && end <= len(path) && len(dP)+len(m) <= len(path) {
				seg := path[start:end]
				lit := path[start:len(dP)] + path[len(dP)+len(m):end]
				_, dd := rfc3986.IsDotSegment(seg)
				_, litdd := rfc3986.IsDotSegment(lit)
				if dd && !litdd {
					vi := evid.Viol("template %q data %q: the data makes the path segment %q a double-dot segment (value %q)", text, datum, seg, v)
					if _, self := rfc3986.IsDotSegment(m); !self {
						vi.Finding = "K-dots"
					}
					return vi
				}
			}
		}
	default:
		o.Labels = append(o.Labels, "path-or-authority")
		for i := 0; i < len(m); i++ {
			ch := m[i]
			if ch <= 0x20 || ch >= 0x7f || strings.IndexByte("\"'<>\\`{}|^", ch) >= 0 {
				return evid.Viol("template %q data %q: normalised part %q contains the byte %q", text, datum, m, ch)
			}
			if ch == '%' && !rfc3986.IsEscape(m, i) {
				return evid.Viol("template %q data %q: normalised part %q has a %% that does not start a valid escape", text, datum, m)
			}
		}
		if c.Pipe == "" || c.Pipe == " | print" {
			if normalizeRef(m) != m {
				return evid.Viol("template %q data %q: normalising the emitted part %q again changes it to %q", text, datum, m, normalizeRef(m))
			}
			if rfc3986.Decode(m) != rfc3986.Decode(normalizeRef(datum)) {
				return evid.Viol("template %q data %q: emitted part %q does not decode to the data", text, datum, m)
			}
			for i := 0; i < len(datum); i++ {
				if rfc3986.IsEscape(datum, i) && !strings.Contains(strings.ToLower(m), strings.ToLower(datum[i:i+3])) {
					return evid.Viol("template %q data %q: the valid escape %q of the data was not kept in %q", text, datum, datum[i:i+3], m)
				}
			}
		}
	}
	return o
}

var prefixPieces = []string{"https:", "http:", "HTTPS:", "https://h/", "http://h", "//h/", "//h", "mailto:", "javascript:", "JaVaScRiPt:", "data:", "about:blank#", "ftp://h/", "tel:",
	"http", "java", "script", "h", "x", "a", "-", "+", ".", ":", "/", "/a/", "a/", "./", "../", "..", "/x", "/x.", "/x/.", "?", "?a=", "?a=b&amp;c=", "?a=b&c=", "#", "#f", "=", "&amp;", "@", ";", ",",
	"&#47;", "&sol;", "&quest;", "&num;", "&colon;", "&#x3f;", "&#x23;", "&#58;", "&#x2F", "&period;", "&Tab;", "&#9;", "&#x20;", "&NewLine;", "&#10;", "&#13;", "&#0;", "&nbsp;", "&#xa0;", "&#x2028;", "&#x7f;", "&#x1;",
	"&", "&a", "&amp", "&lt", "&#", "&#x", "&#4", "&#x2", "&quest", "&num", "%2f", "%3F", "%2e", "%", "%2", "%z", "%25", " ", "\t", "\n", "\x01", "\x7f", " ", "é", "%c3%a9"}

var dataDict = []string{"a", "a b", "x/y", "../z", "..", ".", "%2e%2e", "%2E.", "?a=b", "&b=2#f", "#frag", "=", "&", "&amp;", "javascript:alert(1)", "script:alert(1)", ":", "//evil/", "/\\evil", "\\", "@evil", "%", "%2", "%zz", "%41", "%2f", "%3c", "é", "\xff", "\x00", "\n", "\t", "<b>", "\"", "'", "`", "{", "|", "^", "+", "a+b", "~", "[x]", "*", "!", "$", ",", ";"}

var refPieces = append(strs.AllCharRefSpellings("%?#/:.\\@& \t\n\r\x00\x01\x7f;=2a"), "&nbsp;", "&#x85;", "&#133;", "&#xA0;", "&#x2028;", "&#8233;", "&ensp;", "&#x3000;", "&#x9f;", string(rune(0x85)), string(rune(0xa0)), string(rune(0x2028)), string(rune(0x3000)), string(rune(0x9f)))

func gen(t *rapid.T) Case {
	c := Case{Ctx: ctxs[rapid.IntRange(0, len(ctxs)-1).Draw(t, "ctx")].ID, Quote: rapid.SampledFrom([]string{`"`, `"`, `'`}).Draw(t, "quote")}
	c.Pipe = rapid.SampledFrom([]string{"", "", "", "", " | urlquery", " | html", " | print"}).Draw(t, "pipe")
	switch rapid.IntRange(0, 5).Draw(t, "pk") {
	case 0:
		c.Prefix = ""
	case 1, 2:
		c.Prefix = evid.BStr(rapid.SampledFrom([]string{"/x/", "/x?q=", "https://h/p/", "https://h/?a=1&amp;b=", "/p#", "//h/a/", "/x/.", "/x&quest;a=", "/x&num;", "about:blank#", "https://h/a.", "/a/b.js?v="}).Draw(t, "prefix"))
	default:
		c.Prefix = evid.BStr(strs.From(5, prefixPieces, prefixPieces, refPieces).Draw(t, "prefix"))
	}
	c.Suffix = evid.BStr(rapid.SampledFrom([]string{"", "", "", "/s", "&amp;z=1", "#s", ".js", "/../s", "."}).Draw(t, "suffix"))
	if rapid.Bool().Draw(t, "dictdata") {
		c.Data = evid.BStr(rapid.SampledFrom(dataDict).Draw(t, "data"))
	} else {
		c.Data = evid.BStr(strs.Hostile(4, dataDict).Draw(t, "data"))
	}
	if c.Quote == `'` {
		c.Prefix = evid.BStr(strings.ReplaceAll(string(c.Prefix), "'", ""))
	}
	if rapid.IntRange(0, 3).Draw(t, "condprefix") == 0 {
		c.Mode = rapid.SampledFrom([]string{"same", "hidden", "nested", "nestedhidden", "helper", "rec", "recbal", "recsep"}).Draw(t, "mode")
		c.C, c.D = rapid.Bool().Draw(t, "c"), rapid.Bool().Draw(t, "d")
		if c.Mode == "recsep" && c.Prefix == "" {
			c.Prefix = "/x/" // (a datum at the very start of the value followed by static text is C02's K-adjacent)
		}
		c.Prefix2 = evid.BStr(rapid.SampledFrom([]string{"/p?x=", "/p/", "javascript:", "java", "/q#", "https://h/", "//evil.test/", "?", "x", "#", "/", "&amp;", "script:", "%", "&", "&#", "&#x2", "&am", "%2", "?a=1&"}).Draw(t, "prefix2"))
	}
	return c
}

func TestPropCore(t *testing.T) {
	for _, c := range []Case{
		{Ctx: "a-href", Quote: `"`, Prefix: "/x?q=", Data: "a b&c=d#e"},
		{Ctx: "a-href", Quote: `'`, Prefix: "https://h/p/", Data: "a b/../c?d"},
		{Ctx: "script-src", Quote: `"`, Prefix: "/static/", Suffix: ".js", Data: "app/main"},
		{Ctx: "form-action", Quote: `"`, Prefix: "/x#", Data: "<>"},
	} {
		o := check(c)
		if o.Violation != "" || len(o.Labels) == 0 || o.Labels[0] != "accepted" {
			t.Fatalf("core %+v: %+v", c, o)
		}
	}
}

func TestPropPrefix(t *testing.T) { evid.RunProp(t, "prefix", 1, gen, check) }

// ---------- sub-property "multi": several actions (or loop iterations) in one URL attribute value ----------
//
// <E A="P {{.V0}} M1 {{.V1}} M2 {{.V2}} S">: every static middle piece contains '|', which neither escaping mode
// can emit, so the decoded value splits uniquely. Each datum is judged by the class of the static text in front
// of it (prefix + earlier middles), as the engine must do; what earlier data contributed is not static text.

type MultiCase struct {
	Ctx     string      `json:"ctx"`
	Quote   string      `json:"quote"`
	Prefix  evid.BStr   `json:"prefix"`
	Middles []evid.BStr `json:"middles"` // len = len(Data)-1 (plain) or 1 (loop: the separator repeated after every item)
	Data    []evid.BStr `json:"data"`
	Loop    bool        `json:"loop"`
}

func (c MultiCase) template(cx *attrCtx) (string, map[string]interface{}) {
	var b strings.Builder
	data := map[string]interface{}{}
	b.WriteString(cx.Pre + c.Quote + string(c.Prefix))
	if c.Loop {
		var l []string
		for _, d := range c.Data {
			l = append(l, string(d))
		}
		data["L"] = l
		b.WriteString("{{range .L}}{{.}}" + string(c.Middles[0]) + "{{end}}")
	} else {
		for i, d := range c.Data {
			f := fmt.Sprintf("V%d", i)
			data[f] = string(d)
			b.WriteString("{{." + f + "}}")
			if i < len(c.Middles) {
				b.WriteString(string(c.Middles[i]))
			}
		}
	}
	b.WriteString(c.Quote + cx.Post)
	return b.String(), data
}

func checkMulti(c MultiCase) evid.Outcome {
	cx := ctxByID(c.Ctx)
	o := evid.Outcome{}
	if cx == nil || len(c.Data) == 0 || len(c.Middles) == 0 || (!c.Loop && len(c.Middles) != len(c.Data)-1 && len(c.Data) > 1) {
		o.Skip = true
		return o
	}
	for _, m := range c.Middles {
		if !strings.Contains(string(m), "|") || strings.Contains(string(m), c.Quote) {
			o.Skip = true
			return o
		}
	}
	text, data := c.template(cx)
	t, perr := tx.Parse(text)
	if perr != nil {
		o.Skip = true
		return o
	}
	out, err := tx.Exec(t, data)
	if err != nil {
		o.Labels = append(o.Labels, "rejected")
		o.Skip = true
		return o
	}
	o.Labels = append(o.Labels, "accepted")
	r := htmltok.Tokenize([]byte(out), htmltok.Options{})
	var av *htmltok.Attr
	if len(r.Tokens) >= 1 && r.Tokens[0].Kind == htmltok.StartTag {
		for i := range r.Tokens[0].Attrs {
			if r.Tokens[0].Attrs[i].Name == cx.Attr {
				av = &r.Tokens[0].Attrs[i]
			}
		}
	}
	if av == nil {
		return evid.Viol("template %q data %q: attribute lost in %q", text, c.Data, out)
	}
	v := av.Value
	dP, _ := decodeAttr(string(c.Prefix), c.Quote)
	if !strings.HasPrefix(v, dP) {
		return evid.Viol("template %q data %q: value %q does not start with the decoded prefix %q", text, c.Data, v, dP)
	}
	rest := v[len(dP):]
	static := dP
	for i, d := range c.Data {
		var mid string
		switch {
		case c.Loop:
			mid, _ = decodeAttr(string(c.Middles[0]), c.Quote)
		case i < len(c.Middles):
			mid, _ = decodeAttr(string(c.Middles[i]), c.Quote)
		}
		var m string
		if mid != "" {
			k := strings.Index(rest, mid)
			if k < 0 {
				return evid.Viol("template %q data %q: middle piece %q not found in %q (value %q)", text, c.Data, mid, rest, v)
			}
			m, rest = rest[:k], rest[k+len(mid):]
		} else {
			m, rest = rest, ""
		}
		datum := string(d)
		for k := 0; k < len(datum); k++ {
			if !rfc3986.Unreserved(datum[k]) {
				o.NonTrivial = true
			}
		}
		inQuery := strings.ContainsAny(static, "?#")
		bad := ""
		if static == "" {
			// first datum without any static text in front: whole-URL sanitization (C02/C11), nothing to say here
		} else if inQuery || cx.Class == "TRU" {
			for k := 0; k < len(m); k++ {
				if !(rfc3986.Unreserved(m[k]) || rfc3986.IsEscape(m, k) || (k >= 1 && rfc3986.IsEscape(m, k-1)) || (k >= 2 && rfc3986.IsEscape(m, k-2))) {
					bad = fmt.Sprintf("datum %d %q follows the static text %q (query/fragment or TrustedResourceURL prefix) but is emitted as %q, not fully percent-encoded", i, datum, static, m)
				}
			}
			if bad == "" && rfc3986.Decode(m) != datum {
				bad = fmt.Sprintf("datum %d %q is emitted as %q which does not decode to it", i, datum, m)
			}
		} else {
			for k := 0; k < len(m); k++ {
				ch := m[k]
				if ch <= 0x20 || ch >= 0x7f || strings.IndexByte("\"'<>\\`{}|^", ch) >= 0 || (ch == '%' && !rfc3986.IsEscape(m, k)) {
					bad = fmt.Sprintf("datum %d %q is emitted as %q which is not normalised (byte %q)", i, datum, m, ch)
				}
			}
		}
		if bad != "" {
			vi := evid.Viol("template %q: %s (value %q)", text, bad, v)
			if c.Loop && i >= 1 {
				// K-range: the loop body is analysed once, with the static text in front of the first iteration
				vi.Finding = "K-range"
			}
			return vi
		}
		static += mid
	}
	return o
}

var middlePieces = []string{"|", "/|", "|/", "?|=", "|?q=", "#|", "&amp;|=", "|.", ".|", "/|/", "|&amp;x="}

func genMulti(t *rapid.T) MultiCase {
	c := MultiCase{Ctx: ctxs[rapid.IntRange(0, len(ctxs)-1).Draw(t, "ctx")].ID, Quote: rapid.SampledFrom([]string{`"`, `'`}).Draw(t, "quote")}
	c.Prefix = evid.BStr(rapid.SampledFrom([]string{"/x/", "/x?q=", "https://h/p/", "/p#", "//h/a/", "/a.", "/a/b.js?v=", "about:blank#", "", "/"}).Draw(t, "prefix"))
	c.Loop = rapid.IntRange(0, 2).Draw(t, "loop") == 0
	n := rapid.IntRange(1, 3).Draw(t, "n")
	for i := 0; i < n; i++ {
		if rapid.Bool().Draw(t, "dict") {
			c.Data = append(c.Data, evid.BStr(rapid.SampledFrom(dataDict).Draw(t, "data")))
		} else {
			c.Data = append(c.Data, evid.BStr(strs.Hostile(3, dataDict).Draw(t, "data")))
		}
	}
	nm := n - 1
	if c.Loop || nm == 0 {
		nm = 1
	}
	for i := 0; i < nm; i++ {
		c.Middles = append(c.Middles, evid.BStr(rapid.SampledFrom(middlePieces).Draw(t, "middle")))
	}
	if !c.Loop && n == 1 {
		c.Middles = c.Middles[:1]
	}
	return c
}

func TestPropMulti(t *testing.T) { evid.RunProp(t, "multi", 0.5, genMulti, checkMulti) }

func FuzzPrefix(f *testing.F) {
	f.Add("/x&quest;a=", "&b=2#f", 2)
	f.Add("/x/.", ".", 7)
	f.Add("java", "script:alert(1)", 0)
	f.Fuzz(func(t *testing.T, prefix, data string, k int) {
		if k < 0 {
			k = -k
		}
		c := Case{Ctx: ctxs[k%len(ctxs)].ID, Quote: `"`, Prefix: evid.BStr(prefix), Data: evid.BStr(data)}
		if o := check(c); o.Violation != "" && !(o.Finding != "" && evid.IsKnown(o.Finding)) {
			evid.Record("fuzz", c, o)
			t.Fatalf("%s replay=%s", o.Violation, evid.SaveFailure("fuzz"))
		}
	})
}

func TestReplay(t *testing.T) {
	evid.Replay(t, evid.R("prefix", check), evid.R("fuzz", check), evid.R("multi", checkMulti))
}
