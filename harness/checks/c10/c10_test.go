// C10: HTMLEscaped yields inert, interchange-valid, round-tripping text for every input.
package c10

import (
	"html"
	"strings"
	"testing"

	"github.com/google/safehtml"
	"github.com/google/safehtml/uncheckedconversions"
	"pgregory.net/rapid"

	"verif/evid"
	"verif/gen/strs"
	"verif/oracle/htmltok"
	"verif/oracle/unicodex"
)

func TestMain(m *testing.M) { evid.Main(m, "C10") }

type Case struct {
	S evid.BStr `json:"s"`
}

type ConcatCase struct {
	Parts []evid.BStr `json:"parts"`
}

var dict = []string{"&amp;", "&lt;", "&gt;", "&#34;", "&#39;", "&amp;lt;", "</textarea>", "</p>", "-->", "<!--", "]]>", "<script>", "</title"}

var refs = []string{"&amp;", "&lt;", "&gt;", "&#34;", "&#39;"}

func nontrivial(s string) bool {
	if strings.ContainsAny(s, "<>\"'&") || !unicodex.Valid(s) {
		return true
	}
	for _, r := range unicodex.Runes(s) {
		if unicodex.Noncharacter(r) || unicodex.ForbiddenControl(r) {
			return true
		}
	}
	return false
}

// checkEscape is the oracle for one input string.
func checkEscape(c Case) evid.Outcome {
	s := string(c.S)
	e := safehtml.HTMLEscaped(s).String()
	o := evid.Outcome{NonTrivial: nontrivial(s), Key: s}
	// (i) no raw specials; every '&' starts one of the five references
	for i := 0; i < len(e); i++ {
		switch e[i] {
		case '<', '>', '"', '\'':
			return evid.Viol("output %q of %q contains raw %q", e, s, e[i])
		case '&':
			ok := false
			for _, r := range refs {
				if strings.HasPrefix(e[i:], r) {
					ok = true
				}
			}
			if !ok {
				return evid.Viol("output %q of %q has '&' at %d not starting one of the five references", e, s, i)
			}
		}
	}
	// (ii) interchange valid
	if !unicodex.Valid(e) {
		return evid.Viol("output %q of %q is not valid UTF-8", e, s)
	}
	for _, r := range unicodex.Runes(e) {
		if unicodex.Noncharacter(r) || unicodex.ForbiddenControl(r) {
			return evid.Viol("output %q of %q contains forbidden code point U+%04X", e, s, r)
		}
	}
	// (iii) round trip to the reference coercion
	want := unicodex.Coerce(s)
	if got := html.UnescapeString(e); got != want {
		return evid.Viol("unescape(HTMLEscaped(%q)) = %q, want %q", s, got, want)
	}
	// (iv) tokenizes as one text run / attribute value and never ends the construct
	if msg := tokenCheck(e, want); msg != "" {
		return evid.Viol("input %q output %q: %s", s, e, msg)
	}
	if o.NonTrivial {
		switch {
		case !unicodex.Valid(s):
			o.Labels = append(o.Labels, "invalid-utf8")
		case strings.ContainsAny(s, "<>\"'&"):
			o.Labels = append(o.Labels, "html-special")
		default:
			o.Labels = append(o.Labels, "forbidden-rune")
		}
	}
	return o
}

// nl applies the tokenizer's newline normalisation to the expected text.
func nl(s string) string {
	s = strings.ReplaceAll(s, "\r\n", "\n")
	return strings.ReplaceAll(s, "\r", "\n")
}

func tokenCheck(e, want string) string {
	want = nl(want)
	type ctx struct {
		pre, post string
		mode      htmltok.Mode
		attr      bool
		elem      string
	}
	for _, c := range []ctx{
		{"<p>", "</p>", htmltok.ModeData, false, "p"},
		{"<textarea>", "</textarea>", htmltok.ModeRCDATA, false, "textarea"},
		{"<title>", "</title>", htmltok.ModeRCDATA, false, "title"},
		{`<a title="`, `">`, 0, true, "a"},
		{`<a title='`, `'>`, 0, true, "a"},
	} {
		for _, scripting := range []bool{false, true} {
			r := htmltok.Tokenize([]byte(c.pre+e+c.post), htmltok.Options{Scripting: scripting})
			toks := r.Tokens
			if c.attr {
				if len(toks) != 1 || toks[0].Kind != htmltok.StartTag || toks[0].Name != "a" || len(toks[0].Attrs) != 1 ||
					toks[0].Attrs[0].Name != "title" || toks[0].Attrs[0].Value != want || r.Final.State != "Data" {
					return "in " + c.pre + "…" + c.post + ": not exactly one start tag with the one attribute holding the text: " + strings.Join(htmltok.Skeleton(r), " ") + " final=" + r.Final.State
				}
				continue
			}
			n := len(toks)
			bad := n < 2 || toks[0].Kind != htmltok.StartTag || toks[0].Name != c.elem || toks[n-1].Kind != htmltok.EndTag || toks[n-1].Name != c.elem || r.Final.State != "Data"
			if !bad {
				switch {
				case want == "" && n == 2:
				case n == 3 && toks[1].Kind == htmltok.Text && toks[1].Mode == c.mode && toks[1].Data == want:
				default:
					bad = true
				}
			}
			if bad {
				return "in " + c.pre + "…" + c.post + ": not one text run equal to the coerced input: " + strings.Join(htmltok.Skeleton(r), " ") + " final=" + r.Final.State
			}
		}
	}
	return ""
}

func checkConcat(c ConcatCase) evid.Outcome {
	var hs []safehtml.HTML
	var want strings.Builder
	nt := len(c.Parts) >= 2
	for _, p := range c.Parts {
		hs = append(hs, uncheckedconversions.HTMLFromStringKnownToSatisfyTypeContract(string(p)))
		want.WriteString(string(p))
	}
	if got := safehtml.HTMLConcat(hs...).String(); got != want.String() {
		return evid.Viol("HTMLConcat(%q) = %q, want plain concatenation %q", c.Parts, got, want.String())
	}
	return evid.OK(nt)
}

func genCase(t *rapid.T) Case {
	return Case{S: evid.BStr(strs.Hostile(14, dict).Draw(t, "s"))}
}

func TestPropEscape(t *testing.T) {
	evid.RunProp(t, "escape", 1, genCase, checkEscape)
}

func TestPropConcat(t *testing.T) {
	evid.RunProp(t, "concat", 0.05, func(t *rapid.T) ConcatCase {
		ps := rapid.SliceOfN(strs.Hostile(4, dict), 0, 5).Draw(t, "parts")
		var c ConcatCase
		for _, p := range ps {
			c.Parts = append(c.Parts, evid.BStr(p))
		}
		return c
	}, checkConcat)
}

// TestPropSweep enumerates every code point (as its UTF-8 encoding; for
// surrogates and U+110000 the generalized encoding) and every 2-byte sequence,
// alone and embedded between specials. Shards split the space.
func TestPropSweep(t *testing.T) {
	shard, n := evid.Shard()
	const nCP = 0x110001
	k, emb := shard, 0
	next := func() (Case, bool) {
		if k >= nCP+0x10000 {
			return Case{}, false
		}
		var s string
		switch cp := k; {
		case cp >= nCP:
			two := cp - nCP
			s = string([]byte{byte(two >> 8), byte(two)})
		case cp == 0x110000:
			s = "\xf4\x90\x80\x80"
		case cp >= 0xd800 && cp <= 0xdfff:
			s = string([]byte{0xE0 | byte(cp>>12), 0x80 | byte(cp>>6)&0x3F, 0x80 | byte(cp)&0x3F})
		default:
			s = unicodex.Encode(rune(cp))
		}
		if emb == 0 {
			emb = 1
			return Case{S: evid.BStr(s)}, true
		}
		emb = 0
		k += n
		return Case{S: evid.BStr("a<" + s + "&\"")}, true
	}
	evid.RunEnum(t, "sweep", next, checkEscape)
	evid.SetExhaustive("sweep")
}

// TestPropBoundary: every trouble unit at every offset 0..1100 of an otherwise plain string (defects that depend on a
// block size or on the position of a multi-byte sequence relative to it), deterministic.
func TestPropBoundary(t *testing.T) {
	units := []string{"\U0001F600", "\U0010FFFF", "\u20ac", "\u00e9", "<", "&", "\x00", "\xff", "\xf0\x9f\x98", "\xed\xa0\x80", "\ufffe", "\U0001FFFE", "\ufffd"}
	shard, n := evid.Shard()
	off, u := shard, 0
	fill := strings.Repeat("a", 1200)
	evid.RunEnum(t, "boundary", func() (Case, bool) {
		if off > 1100 {
			return Case{}, false
		}
		c := Case{S: evid.BStr(fill[:off] + units[u] + "b" + units[(u+1)%len(units)] + "cd")}
		u++
		if u == len(units) {
			u = 0
			off += n
		}
		return c, true
	}, checkEscape)
	evid.SetExhaustive("boundary")
}

// FuzzEscape is the native fuzz target (thorough tier).
func FuzzEscape(f *testing.F) {
	for _, s := range append([]string{"<>\"'&", "\x00\x7f\xc2\x80", "\xed\xa0\x80", "\xf4\x90\x80\x80", "\xef\xbf\xbe", "a\xffb"}, dict...) {
		f.Add(s)
	}
	f.Fuzz(func(t *testing.T, s string) {
		c := Case{evid.BStr(s)}
		if o := checkEscape(c); o.Violation != "" {
			evid.Record("fuzz", c, o)
			t.Fatalf("%s replay=%s", o.Violation, evid.SaveFailure("fuzz"))
		}
	})
}

func TestReplay(t *testing.T) {
	evid.Replay(t, evid.R("escape", checkEscape), evid.R("boundary", checkEscape), evid.R("fuzz", checkEscape), evid.R("sweep", checkEscape), evid.R("concat", checkConcat))
}
