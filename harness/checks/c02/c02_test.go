// C02: untrusted strings never reach code contexts; URLs never become javascript:.
package c02

import (
	"fmt"
	"github.com/google/safehtml/template"
	"html"
	"net/url"
	"regexp"
	"strings"
	"testing"

	"pgregory.net/rapid"

	"verif/evid"
	"verif/gen/hist"
	"verif/gen/strs"
	"verif/gen/tmpl"
	"verif/oracle/htmltok"
	"verif/oracle/srcset"
	"verif/oracle/whaturl"
	"verif/tx"
)

func TestMain(m *testing.M) { evid.Main(m, "C02") }

// ---------- marker location oracle ----------

func marker(i int) string { return fmt.Sprintf("zQ%dx", i) }

func hasMarker(s string) bool {
	i := strings.Index(s, "zQ")
	for i >= 0 {
		j := i + 2
		for j < len(s) && s[j] >= '0' && s[j] <= '9' {
			j++
		}
		if j > i+2 && j < len(s) && s[j] == 'x' {
			return true
		}
		k := strings.Index(s[i+2:], "zQ")
		if k < 0 {
			return false
		}
		i += 2 + k
	}
	return false
}

func asciiLower(s string) string { return strings.ToLower(s) }

// hasMarkerName: the tokenizer lower-cases tag and attribute names, so a marker inside a name reads zq<digits>x.
func hasMarkerName(s string) bool {
	return hasMarker(s) || hasMarker(strings.ReplaceAll(s, "zq", "zQ"))
}

func relTokens(attrs []htmltok.Attr) []string {
	for _, a := range attrs {
		if a.Name == "rel" && !a.Dropped {
			return strings.FieldsFunc(asciiLower(a.Value), func(r rune) bool { return r == ' ' || r == '\t' || r == '\n' || r == '\f' || r == '\r' })
		}
	}
	return nil
}

func codeLoading(elem, attr string, attrs []htmltok.Attr) bool {
	switch {
	case attr == "src" && (elem == "script" || elem == "iframe" || elem == "frame" || elem == "embed"):
		return true
	case attr == "data" && elem == "object":
		return true
	case attr == "href" && elem == "base":
		return true
	case attr == "href" && elem == "link":
		for _, t := range relTokens(attrs) {
			if t == "stylesheet" {
				return true
			}
		}
	}
	return false
}

var base, _ = url.Parse("https://base.test/dir/page")

func originOf(s string) string {
	// WHATWG: in special schemes a backslash is a slash; TAB/LF/CR are removed, leading/trailing C0+space stripped
	s = whaturl.Preprocess(s)
	s = strings.ReplaceAll(s, "\\", "/")
	u, err := url.Parse(s)
	if err != nil {
		return "error:unparsable"
	}
	r := base.ResolveReference(u)
	return r.Scheme + "://" + r.Host
}

// originFixed: does the static prefix already determine the origin, whatever follows?
func originFixed(prefix string) bool {
	want := ""
	for i, x := range []string{"", "@evil.test/", ".evil.test/", ":1@evil.test/", "/evil.test", "//evil.test", "\\evil.test", "\\\\evil.test", "evil.test", ":evil.test", "?@evil.test", "#@evil.test", "%2f%2fevil.test"} {
		o := originOf(prefix + x)
		if strings.HasPrefix(o, "error:") {
			continue
		}
		if i == 0 || want == "" {
			want = o
			continue
		}
		if o != want {
			return false
		}
	}
	sc, _, ok := whaturl.Scheme(prefix)
	if ok && sc != "https" && sc != "http" {
		return sc == "about" && strings.Contains(prefix, "#")
	}
	return true
}

// locate judges where untrusted markers ended up in out (complete or partial output).
func locate(out string) string {
	// (with and without scripting; with and without the foreign-content rule for svg / math, inside which script,
	// style, title and textarea do not switch the tokenizer)
	for k := 0; k < 4; k++ {
		r := htmltok.Tokenize([]byte(out), htmltok.Options{Scripting: k&1 == 1, Foreign: k&2 == 2})
		for _, t := range r.Tokens {
			switch t.Kind {
			case htmltok.Text:
				if !hasMarker(t.Data) {
					continue
				}
				if t.Mode == htmltok.ModeScriptData {
					return fmt.Sprintf("untrusted marker inside a script element body: %q", t.Data)
				}
			case htmltok.Comment:
				if hasMarker(t.Data) {
					return fmt.Sprintf("untrusted marker inside an HTML comment: %q", t.Data)
				}
			case htmltok.StartTag, htmltok.EndTag:
				if hasMarkerName(t.Name) {
					return fmt.Sprintf("untrusted marker inside a tag name: %q", t.Name)
				}
				for _, a := range t.Attrs {
					if hasMarkerName(a.Name) {
						return fmt.Sprintf("untrusted marker inside an attribute name %q of <%s>", a.Name, t.Name)
					}
					if !hasMarker(a.Value) {
						continue
					}
					switch {
					case a.Quote == 0:
						return fmt.Sprintf("untrusted marker inside the unquoted attribute value %s=%q", a.Name, a.Value)
					case strings.HasPrefix(a.Name, "on"):
						return fmt.Sprintf("untrusted marker inside the event handler %s=%q", a.Name, a.Value)
					case a.Name == "style", a.Name == "srcdoc":
						return fmt.Sprintf("untrusted marker inside %s=%q", a.Name, a.Value)
					}
					if t.Kind == htmltok.StartTag && !a.Dropped && codeLoading(t.Name, a.Name, t.Attrs) {
						k := strings.Index(a.Value, "zQ")
						if !originFixed(a.Value[:k]) {
							return fmt.Sprintf("untrusted marker at the origin-determining start of the code-loading URL <%s %s=%q>", t.Name, a.Name, a.Value)
						}
					}
					if msg := jsURL(t.Name, a); msg != "" {
						return msg
					}
				}
			}
		}
		// style element body: raw text of a style element
		inStyle := false
		for _, t := range r.Tokens {
			switch {
			case t.Kind == htmltok.StartTag && t.Name == "style":
				inStyle = true
			case t.Kind == htmltok.EndTag && t.Name == "style":
				inStyle = false
			case t.Kind == htmltok.Text && inStyle && t.Mode == htmltok.ModeRAWTEXT && hasMarker(t.Data):
				return fmt.Sprintf("untrusted marker inside a style element body: %q", t.Data)
			}
		}
		f := r.Final
		if f.InTag != "" && hasMarkerName(f.InTag) || f.InAttr != "" && hasMarkerName(f.InAttr) {
			return fmt.Sprintf("untrusted marker inside an unfinished tag or attribute name (final state %+v)", f)
		}
	}
	return ""
}

var urlAttrs = map[string]bool{"href": true, "src": true, "action": true, "formaction": true, "data": true, "poster": true, "xlink:href": true, "background": true, "cite": true, "longdesc": true, "manifest": true, "ping": true}

// jsURL: a URL-valued attribute, taken as a whole after decoding, must not have the javascript scheme.
func jsURL(elem string, a htmltok.Attr) string {
	if urlAttrs[a.Name] && whaturl.IsJavascript(a.Value) {
		return fmt.Sprintf("<%s %s=%q> is a javascript: URL", elem, a.Name, a.Value)
	}
	if a.Name == "srcset" || a.Name == "imagesrcset" {
		for _, cd := range srcset.Parse(a.Value) {
			if whaturl.IsJavascript(cd.URL) {
				return fmt.Sprintf("<%s %s=%q> has the javascript: candidate %q", elem, a.Name, a.Value, cd.URL)
			}
		}
	}
	return ""
}

// ---------- sub-property "location": generated programs, markers everywhere ----------

type LocCase struct {
	Prog tmpl.Prog `json:"prog"`
	Data tmpl.Data `json:"data"`
}

var payloads = []string{"", "", "\"", "'", "<", ">", " ", "\t", "\n", "=", "/", "&", ";", ":", "javascript:", "</script>", "</style>", "-->", "\" onx=\"", "' onx='", "//evil.test/", "https://evil.test/", ".evil.test/", "@evil.test", "\\", "..", "?", "#", "%", "expression(", "url(", "*/", "/*", "`", "${", "}", "{", "\x00", "\xff", "&#x22;", "&quot", "\r"}

func untrusted(t *rapid.T, i int) string {
	return marker(i) + rapid.SampledFrom(payloads).Draw(t, "p1") + rapid.SampledFrom(payloads).Draw(t, "p2") + marker(i)
}

func genLoc(t *rapid.T) LocCase {
	o := tmpl.Options{MaxDepth: 2, MaxItems: 3, Helpers: false, URLBias: true, CommentsOK: true, Weird: true}
	p := tmpl.Generate(t, o)
	switch rapid.IntRange(0, 5).Draw(t, "splice") {
	case 0, 1:
		// template nodes spliced in at arbitrary positions of the static text (by preference inside tags)
		tmpl.Splice(t, p, 2)
	case 2:
		// a balanced region wrapped into a control structure or moved into a helper template
		tmpl.Region(t, p)
	}
	d := tmpl.Bind(t, p)
	for i := range d.V {
		// untrusted marker strings in every position, typed-only ones included (those must fail);
		// some typed fields keep their trusted value so that the rest of the template still runs
		if d.V[i].Type == "" || rapid.IntRange(0, 2).Draw(t, "untrust") == 0 {
			d.V[i] = tmpl.Val{S: evid.BStr(untrusted(t, i))}
		}
	}
	return LocCase{*p, d}
}

func checkLoc(c LocCase) evid.Outcome {
	text := c.Prog.Text()
	o := evid.Outcome{Key: text + "\x00" + fmt.Sprint(c.Data)}
	t, perr := tx.Parse(text)
	if perr != nil {
		o.Skip = true
		return o
	}
	out, err := tx.Exec(t, c.Data.Map())
	// the partial output written before a run-time error is judged too
	if msg := locate(out); msg != "" {
		return evid.Viol("%s\ntemplate: %q\ndata: %+v\noutput (err=%v): %q", msg, text, c.Data, err, out)
	}
	if err != nil {
		o.Labels = append(o.Labels, "exec-error")
		if out == "" {
			o.Skip = true
		}
		return o
	}
	o.NonTrivial = markerInAttrOrSpecial(out)
	o.Labels = append(o.Labels, "accepted")
	return o
}

func markerInAttrOrSpecial(out string) bool {
	r := htmltok.Tokenize([]byte(out), htmltok.Options{})
	for _, t := range r.Tokens {
		if t.Kind == htmltok.Text && t.Mode != htmltok.ModeData && hasMarker(t.Data) {
			return true
		}
		for _, a := range t.Attrs {
			if hasMarker(a.Value) {
				return true
			}
		}
	}
	return false
}

// ---------- sub-property "code": directed code-context shapes ----------

type CodeCase struct {
	Shape   string    `json:"shape"`        // template with the hole @@
	Wrap    string    `json:"wrap"`         // how the action is produced: plain, if, range, with, helper, print
	Payload evid.BStr `json:"payload"`      // untrusted string (marker at both ends is added)
	Typed   string    `json:"typed"`        // "" = untrusted string; else a safe type carrying trusted contents (control case)
	JS      bool      `json:"js,omitempty"` // the untrusted string is javascript:alert(1) + payload (no marker): no URL attribute of the output may have the javascript scheme
}

var codeShapes = []string{
	`<script>@@</script>`, `<script>var x = "@@";</script>`, `<script type="text/javascript">f('@@')</script>`, `<SCRIPT>@@</SCRIPT>`, `<script >a(1);@@</script >`,
	`<style>@@</style>`, `<style>a{color:@@}</style>`, `<STYLE type="text/css">@@</STYLE>`,
	`<div onclick="@@">`, `<a onmouseover='f(@@)'>`, `<img onerror="@@" src="/x">`, `<body ONLOAD="@@">`, `<svg onload="@@">`, `<div on="@@">`,
	`<div style="@@">`, `<p style='color:@@'>`, `<div STYLE="width:1px;@@">`, `<div style="color:red;background:url(@@)">`,
	`<iframe srcdoc="@@"></iframe>`, `<iframe srcdoc='<p>@@</p>'></iframe>`, `<IFRAME SRCDOC="@@"></IFRAME>`,
	`<!-- @@ -->`, `<p>a<!--@@-->b</p>`, `<!--[if IE]>@@<![endif]-->`,
	`<script src="@@"></script>`, `<script src='@@'></script>`, `<script src="/s/@@"></script>`, `<script src="https://h/s/@@.js"></script>`, `<script src="//h/@@"></script>`, `<script src="https://h@@"></script>`, `<script src="/@@"></script>`, `<script src="//@@"></script>`, `<script src="https://@@"></script>`, `<script src="https://h/?@@"></script>`, `<script src="about:blank#@@"></script>`,
	`<iframe src="@@"></iframe>`, `<iframe src="https://h/@@"></iframe>`, `<frame src="@@">`, `<embed src="@@">`, `<object data="@@"></object>`, `<base href="@@">`, `<base href="https://h/@@">`,
	`<link rel="stylesheet" href="@@">`, `<link rel='stylesheet' href='https://h/@@.css'>`, `<link rel="STYLESHEET" href="@@">`, `<link rel="alternate stylesheet" href="@@">`, `<link rel="stylesheet icon" href="@@">`, `<link rel="icon stylesheet" href="@@">`, `<link rel="icon" href="@@">`,
	`<link href="@@" rel="stylesheet">`, `<link rel=stylesheet href="@@">`, `<link rel="stylesheet" rel="icon" href="@@">`, `<link rel="icon" rel="stylesheet" href="@@">`, `<link rel="style&#115;heet" href="@@">`, `<link rel="icon&#32;stylesheet" href="@@">`, `<link rel="icon&Tab;stylesheet" href="@@">`, `<link rel="icon` + "\f" + `stylesheet" href="@@">`,
	`<link rel="@@" href="/x.css">`, `<link rel="{{.R}}icon" href="@@">`, `<link rel="icon {{.R}}" href="@@">`, `<link rel="{{.R}}" href="@@">`, `<link rel="{{.R}} icon" href="@@">`, `<link rel="{{if .C}}stylesheet{{else}}icon{{end}}" href="@@">`, `<link rel="{{if .F}}icon{{else}}stylesheet{{end}}" href="@@">`, `<link rel="icon {{with .C}}stylesheet{{end}}" href="@@">`, `<link rel="{{range .L}}stylesheet {{end}}icon" href="@@">`,
	`<a href=@@>`, `<a title=@@>`, `<a href=/x/@@>`, `<@@>`, `<a@@>`, `<a @@="x">`, `<a x@@="y">`, `<a @@>`, `</@@>`, `<a href="x" @@>`,
	`<a href="@@">`, `<a href='@@'>`, `<img src="@@">`, `<form action="@@">`, `<button formaction="@@">`, `<img srcset="@@">`, `<img srcset="a.png 1x, @@ 2x">`, `<video poster="@@">`, `<a xlink:href="@@">`,
	`<script><!--<script></script>@@--></script>`, `<script><!--<SCRIPT>x</SCRIPT>@@//--></script>`, `<script>/*<!--*/</script><p>@@</p>`,
	// the same helper needed at two sites whose contexts differ only in what the derived-template name leaves out
	`<link rel="icon" href="@@"><link rel="stylesheet" href="@@">`, `<link rel="stylesheet" href="{{.TRU}}"><link rel="icon" href="@@"><link rel="stylesheet" href="@@">`, `<a href="@@">x</a><a href="java@@">y</a>`, `<img src="@@"><img src="/x?q=@@">`,
	// bogus comments: the engine neutralises the '<' so that the action stays in text
	`<p><![CDATA[@@]]></p>`, `<p><![cdata[@@]]></p>`, `<p><!x @@></p>`, `<?php @@ ?>`, `<p></ @@></p>`, `<!DOCTYPE @@>`, `<!doctype html @@><p>`, `<p><!-@@-></p>`, `<p><!--->@@--></p>`, `<p><!--x--!>@@--></p>`,
	// names and rel values assembled around conditionals
	`<a {{if .C}}href{{end}}="@@">`, `<div {{if .C}}onclick{{end}}="@@">`, `<iframe {{if .F}}x{{else}}srcdoc{{end}}="@@"></iframe>`, `<a {{if .F}}title{{end}}="@@">`, `<div {{range .L}}style{{end}}="@@">`,
	`<link rel="stylesheet {{if .C}}{{end}}icon" href="@@">`, `<link rel="style{{if .C}}{{end}}sheet" href="@@">`, `<link rel="{{if .C}}stylesheet{{end}} icon" href="@@">`, `<link rel="icon {{if .C}}stylesheet{{else}}x{{end}}" href="@@">`, `<link rel="icon{{/* c */}} stylesheet" href="@@">`,
	`{{if .C}}<script{{else}}<br{{end}}>@@</script>`, `{{if .C}}<object{{else}}<br{{end}}>@@`, `{{if .C}}<style{{else}}<hr{{end}}>@@</style>`, `{{if .F}}<br{{else}}<script{{end}}>@@</script>`, `{{if .C}}<script{{else}}<div{{end}}>@@`,
	`<s{{if .C}}cript{{end}}>@@</script>`, `<scr{{/* c */}}ipt>@@</script>`, `<scr{{if .C}}{{end}}ipt>@@</script>`, `<a hr{{if .C}}ef{{end}}="@@">`, `<div on{{if .C}}click{{end}}="@@">`,
	// K-rawnest: the end tag of an element that browsers tokenize as raw text (iframe, noscript with scripting, xmp,
	// noembed, noframes) written inside an attribute value or a comment; the engine does not model these elements
	`<noscript><p title="</noscript><script>@@</script>">`, `<iframe><p title="</iframe><script>@@</script>">`, `<xmp><p title='</xmp><style>@@</style>'>`, `<noembed><!-- </noembed><script>@@</script> -->`, `<noframes><a href="</noframes><script>@@//">`,
	// an attribute name that is empty in one branch, followed by a static value; a branch that ends after name + white space
	`<a {{if .F}}href{{end}}="/p?q=" title="@@">`, `<a {{with .F}}href{{end}}='x' title='@@'>`, `<link {{if .C}}title {{end}}rel="stylesheet" rel="icon" href="@@">`, `<link {{if .F}}title {{end}}rel="stylesheet" rel="icon" href="@@">`,
	`{{if .C}}<a{{else}}</a{{end}} /="/p?q=" data-x="@@">`,
	// complete templates (no hole): recursive helpers whose end context differs from the assumed one in what eq ignores
	`{{define "r"}}{{if .N}}{{template "r" .N}}{{.V}}{{else}}</div>{{if .C}}<script{{else}}<div{{end}}>{{end}}{{end}}<div>{{template "r" .}}`,
	`{{define "r"}}{{if .N}}{{template "r" .N}}{{.V}}{{else}}"></a><a href="{{end}}{{end}}<a href="/x/{{template "r" .}}">`,
	`{{define "r"}}/{{if .N}}{{template "r" .N}}{{end}}{{end}}<script src="{{template "r" .}}x{{.V}}"></script>`,
	`{{define "q"}}{{if .F}}"></a><a href="/x/{{end}}{{end}}<a href="/x/{{template "q" .}}{{.V}}"></a><a href="{{template "q" .}}{{.V}}">`,
	`{{define "q"}}"{{end}}<link rel="icon{{template "q"}} href="{{.V}}"><link rel="stylesheet{{template "q"}} href="{{.V}}">`,
	`{{define "h"}}type="b"{{end}}<script type="b" {{template "h"}}></script>{{if .C}}<script type="text/plain" {{template "h"}}>{{else}}<script type="b">{{end}}{{.V}}</script>`,
	// (former K-mangle case, F-openprefix) a helper with an action, called inside the still open rel value of two links
	`{{define "hq"}}" href="{{.V}}{{end}}<link rel="icon{{template "hq" .}}"><link rel="stylesheet{{template "hq" .}}">`,
	// the end tag of a script / style element split by a template node (F-endtagsplit); raw-text elements inside svg /
	// math, where browsers read their content as markup (F-foreignraw); quotes in a tag name continued after a
	// template node (F-namequote)
	`<script>var x = 1;</scr{{if .F}}{{end}}ipt><img src="x" onerror="1//</script>@@">`, `<style>p{}<{{if .F}}{{end}}/style><iframe srcdoc="</style>@@"></iframe>`,
	`{{define "gt"}}>{{end}}<script>var x = 1;</script{{template "gt"}}<img src="x" onerror="1//</script>@@">`, `<script>a</scr{{if .C}}ipt>{{else}}ipt>{{end}}<img src="x" onerror="1//</script>@@">`,
	`<svg><style><img src="x" onerror="1//</style>@@"></svg>`, `<svg><script><img src="x" onerror="1//</script>@@"></svg>`, `<math><style><p><iframe srcdoc="</style>@@"></iframe></math>`, `<svg><style><!-- "</style>@@ --></svg>`,
	// (eighth round) the end tag spread over three nodes; nested / mismatched svg and math; a split svg name
	`<script>x<{{if .F}}{{end}}/{{if .F}}{{end}}script><img src="x" onerror="1//</script>@@">`, `{{define "e"}}ipt{{end}}<script>x</scr{{template "e"}}><img src="x" onerror="1//</script>@@">`,
	`<svg><svg></svg><style><img src="x" onerror="1//</style>@@"></svg>`, `<math></svg><style><img src="x" onerror="1//</style>@@"></math>`, `<sv{{if .F}}{{end}}g><style><img src="x" onerror="1//</style>@@"></svg>`,
	// (ninth round) what does NOT close an svg / math element: break-out start tags inside an integration point, the "/"
	// of an unquoted value, the end tag of the other branch's element
	`<svg><foreignObject><p>hello</p></foreignObject><style><img src="x" onerror="1//</style>@@"></svg>`, `<math><mi><b>x</b></mi><script><img src="x" onerror="1//</script>@@"></math>`,
	`<svg width=100/><style><img src="x" onerror="1//</style>@@">`, `{{if .F}}<svg>{{else}}<math>{{end}}</svg><style><img src="x" onerror="1//</style>@@">`,
	`<img{{if .F}}{{end}}x="</a tabindex=1 autofocus onfocus="1>/*<b>*/@@">`, `<p>a</p{{if .F}}{{end}}x="><script>/*">*/@@</script>`,
	// text after a template node continues the name of an END tag (F-endtagname)
	`<bdi>a</b{{if .C}}data-x="@@"{{end}}di>`, `<button {{range .L2}}data-x="@@"></b{{end}}utton>`, `<bdi>a</b{{if .F}}z{{end}}data-x="@@">`,
	// "/" and "=" in an end tag: what the engine reads as a quoted value is not one for a browser
	`<a>x</a /="><img title=" data-x="@@">`, `<p>x</p /="><script>" data-x="@@">`,
	// a DOCTYPE ends at its first '>'
	`<!DOCTYPE html <p title="><script>@@</script>">`, `<!doctype <a href='><style>@@</style>'>`,
	// loop bodies that end in another context than they start in, or glue names on re-entry
	`<a title="{{range .L2}}x" href="@@{{end}}">`, `<p>{{range .L2}}@@<script>{{else}}<script>{{end}}</script>`, `<s {{range .L2}}cript>@@</script><s{{end}}>`, `<p {{range .L2}}title="@@"></p><p{{end}}>`,
	// helpers that complete names of their callers, called twice
	`{{define "hc"}}cript>{{end}}<s{{template "hc"}}var x = 1;</script><s{{template "hc"}}@@</script>`, `{{define "hx"}}{{if .F}} {{end}}x="icon"{{end}}<link rel{{template "hx" .}}><link rel{{template "hx" .}} rel="stylesheet" href="@@">`,
	`{{define "hj"}}"><a href="javascript://{{end}}<a href="{{template "hj"}}">x</a><a href="/{{template "hj"}}@@">y</a>`,
	`{{define "hb"}}{{.V}}</script>{{end}}{{template "hb" .}}<s{{if .C}}cript{{end}}>{{template "hb" .}}@@`,
	// a special element's end tag written inside its own start tag (a browser reads attribute names there)
	`<script </script>@@</script>`, `<script type="module"</script>@@</script>`, `<style </style>@@</style>`, `<script x=1 </script >@@</script>`, `<SCRIPT </SCRIPT>@@</SCRIPT>`,
	// branches that open different elements one of which is a special element, followed by markup
	`{{if .C}}<script{{else}}<div{{end}}>var b=2;1<b>@@//</b></script>`, `{{if .C}}<script>{{else}}<title>{{end}}x</title>@@</script>`, `{{if .C}}<script{{else}}<div{{end}}>/*<b>*/@@/*</b></div>*/</script>`,
	`{{if .C}}<style{{else}}<div{{end}}>a<b>@@</b></style>`, `{{if .C}}<style>{{else}}<textarea>{{end}}x</textarea>@@</style>`, `{{if .F}}<div{{else}}<script{{end}}>1<b>@@</b></script>`, `{{if .C}}<script>{{else}}<style>{{end}}/*</style>*/@@</script>`,
	// the rel attribute of a link element behind a conditional attribute name, or hidden by '/' as separator
	`<link {{if .C}}title{{else}}rel{{end}}="icon" rel="stylesheet" href="@@">`, `<link {{if .C}}rel{{else}}title{{end}}="stylesheet" rel="icon" href="@@">`, `<link {{if .F}}title{{else}}rel{{end}}="stylesheet" rel="icon" href="@@">`,
	`<link/rel=stylesheet rel="icon" href="@@">`, `<link x/rel="stylesheet" rel="icon" href="@@">`, `<link/rel="stylesheet"/rel="icon"/href="@@">`, `<a/href="@@">`, `<a x/onclick="@@">`, `<div/style="@@">`,
	// the same helper at two sites that differ in the alternative element names only
	`<img src="@@">{{if .C}}<script{{else}}<img{{end}} src="@@"></script>`, `{{if .C}}<script{{else}}<img{{end}} src="@@"></script><img src="@@">`,
	// names completed, or separated, by a template node
	`<a data-x{{if .C}} {{end}}onclick="@@">`, `<a title{{if .C}} {{end}}href="@@">`, `<a title{{range .L}} {{end}}href="@@">`, `<a title{{if .C}}{{end}}/href="@@">`, `<a data-x{{if .C}}{{end}}/onclick="@@">`, `<link r{{if .C}}{{end}}el="stylesheet" rel="icon" href="@@">`, `<link re{{if .C}}l{{end}}="stylesheet" rel="icon" href="@@">`,
	`<a {{if .C}}title {{end}}href="@@">`, `<a title={{if .F}}x{{end}} alt="@@">`, `<b{{if .F}} {{end}}title="@@">`,
	`<textarea>@@</textarea>`, `<title>@@</title>`, `<p>@@</p>`, `<noscript>@@</noscript>`, `<iframe>@@</iframe>`, `<xmp>@@</xmp>`, `<plaintext>@@`,
}

// rawnestShape: a raw-text element the engine does not model whose end tag is written inside a quoted attribute
// value or a comment.
var rawnestShape = regexp.MustCompile(`^<(iframe|noscript|xmp|noembed|noframes)>(<[a-z]+ [a-z]+=["']|<!-- )</(iframe|noscript|xmp|noembed|noframes)>`)

func genCode(t *rapid.T) CodeCase {
	c := CodeCase{Shape: rapid.SampledFrom(codeShapes).Draw(t, "shape"), Wrap: rapid.SampledFrom([]string{"plain", "plain", "if", "range", "with", "helper", "print", "var", "else", "rec", "recbal", "reserved", "htmlfunc"}).Draw(t, "wrap")}
	c.Payload = evid.BStr(rapid.SampledFrom(payloads).Draw(t, "p1") + rapid.SampledFrom(payloads).Draw(t, "p2"))
	if rapid.IntRange(0, 5).Draw(t, "typed") == 0 {
		c.Typed = rapid.SampledFrom(tx.TypeNames).Draw(t, "type")
	} else if rapid.IntRange(0, 4).Draw(t, "js") == 0 {
		c.JS = true
	}
	return c
}

// jsAnywhere: some URL-valued attribute of the output has the javascript scheme.
func jsAnywhere(out string) string {
	r := htmltok.Tokenize([]byte(out), htmltok.Options{})
	for _, t := range r.Tokens {
		if t.Kind != htmltok.StartTag {
			continue
		}
		for _, a := range t.Attrs {
			if a.Dropped {
				continue
			}
			// the URL-valued attributes the property lists (an image URL such as poster is not among them)
			switch a.Name {
			case "href", "src", "action", "formaction", "srcset", "imagesrcset":
			default:
				continue
			}
			if msg := jsURL(t.Name, a); msg != "" {
				return msg
			}
		}
	}
	return ""
}

func (c CodeCase) render() (string, map[string]interface{}) {
	var v interface{} = marker(0) + string(c.Payload) + marker(0)
	if c.JS {
		v = "javascript:alert(1)" + string(c.Payload)
	}
	if c.Typed != "" {
		v = tx.Typed(c.Typed, "https://h/trusted/"+string(c.Payload))
	}
	data := map[string]interface{}{"V": v, "C": true, "F": false, "L": []interface{}{v}, "L2": []int{1, 2}, "U": "/u", "R": "stylesheet ", "TRU": tx.Typed("TrustedResourceURL", "/s.css")}
	act := "{{.V}}"
	pre := ""
	switch c.Wrap {
	case "if":
		act = "{{if .C}}{{.V}}{{end}}"
	case "else":
		act = "{{if .F}}x{{else}}{{.V}}{{end}}"
	case "range":
		act = "{{range .L}}{{.}}{{end}}"
	case "with":
		act = "{{with .V}}{{.}}{{end}}"
	case "helper":
		pre = `{{define "h"}}{{.}}{{end}}`
		act = `{{template "h" .V}}`
	case "reserved":
		// templates of the set that carry the names the engine gives to context-specific copies of "h", analysed
		// in HTML text before "h" is needed in the hole
		pre = `{{define "h"}}{{.}}{{end}}`
		for _, n := range []string{"h$htmltemplate_StateSpecialElementBody_elementScript", "h$htmltemplate_StateSpecialElementBody_elementStyle", "h$htmltemplate_StateAttr_DelimDoubleQuote_attrHref_elementA", "h$htmltemplate_StateAttr_DelimDoubleQuote_attrSrc_elementScript", "h$htmltemplate_StateAttr_DelimDoubleQuote_attrOnclick_elementDiv", "h$htmltemplate_StateAttr_DelimDoubleQuote_attrSrcdoc_elementIframe"} {
			pre += `{{define "` + n + `"}}{{.}}{{end}}{{template "` + n + `" "x"}}`
		}
		act = `{{template "h" .V}}`
	case "htmlfunc":
		// the program has registered a function of its own under the name of a predefined escaper (K-funcsoverride)
		act = `{{.V | html}}`
	case "print":
		act = `{{.V | print}}`
	case "var":
		act = `{{$v := .V}}{{$v}}`
	}
	if c.Typed != "" && c.Wrap == "print" {
		act = "{{.V}}"
	}
	if !strings.Contains(c.Shape, "@@") {
		// a complete template: its recursion runs one level deep
		inner := map[string]interface{}{"Z": 1}
		for k, x := range data {
			inner[k] = x
		}
		data["N"] = inner
		return c.Shape, data
	}
	if c.Wrap == "rec" || c.Wrap == "recbal" {
		// a helper that calls itself: "recbal" ends in the context it starts in, "rec" also holds the rest of the
		// template text, so that it ends in another context than the one of its call site
		inner := map[string]interface{}{}
		for k, x := range data {
			inner[k] = x
		}
		data["N"] = inner
		i := strings.Index(c.Shape, "@@")
		before, after := c.Shape[:i], strings.ReplaceAll(c.Shape[i+2:], "@@", "{{.V}}")
		body := `{{.V}}{{if .N}}{{template "h" .N}}{{end}}`
		if c.Wrap == "rec" {
			return `{{define "h"}}` + body + after + `{{end}}` + before + `{{template "h" .}}`, data
		}
		return `{{define "h"}}` + body + `{{end}}` + before + `{{template "h" .}}` + after, data
	}
	return pre + strings.ReplaceAll(c.Shape, "@@", act), data
}

func checkCode(c CodeCase) evid.Outcome {
	text, data := c.render()
	o := evid.Outcome{}
	t, perr := tx.Parse(text)
	if c.Wrap == "htmlfunc" {
		t, perr = tx.ParseFuncs(text, template.FuncMap{"html": func(s interface{}) interface{} { return s }})
	}
	if perr != nil {
		o.Skip = true
		o.Labels = append(o.Labels, "parse-error")
		return o
	}
	out, err := tx.Exec(t, data)
	msg := locate(out)
	if c.JS && msg == "" {
		msg = jsAnywhere(out)
	}
	if msg != "" {
		v := evid.Viol("%s\ntemplate: %q\ndata V=%q\noutput (err=%v): %q", msg, text, data["V"], err, out)
		if strings.Contains(c.Shape, "<!--<script") || strings.Contains(c.Shape, "<!--<SCRIPT") {
			v.Finding = "K-scriptesc"
		}
		if strings.Contains(c.Shape, "<s{{") || strings.Contains(c.Shape, "<scr{{") || strings.Contains(c.Shape, " hr{{") || strings.Contains(c.Shape, " on{{") {
			v.Finding = "F-namesplit-regressed"
		}
		// (two call sites of one helper that differ in the class of the static text in front of the call - start of the
		// URL, after "java", after "?q=" - get copies of their own since F-prefixclass: no attribution any more)
		if strings.Contains(c.Shape, `{{.R}}`) {
			v.Finding = "F-reldyn-regressed"
		}
		if rawnestShape.MatchString(c.Shape) {
			v.Finding = "K-rawnest"
		}
		if c.Wrap == "htmlfunc" {
			v.Finding = "K-funcsoverride"
		}
		return v
	}
	if err != nil {
		o.Labels = append(o.Labels, "refused")
		o.NonTrivial = c.Typed == ""
		return o
	}
	o.Labels = append(o.Labels, "accepted")
	o.NonTrivial = true
	return o
}

// ---------- sub-property "scheme": javascript: split over pieces of one URL attribute ----------

type SchemeCase struct {
	Elem   string  `json:"elem"`
	Attr   string  `json:"attr"`
	Quote  string  `json:"quote"`
	Pieces []Piece `json:"pieces"`
	Loop   bool    `json:"loop"` // render the dynamic pieces through one {{range}} over a list
}

type Piece struct {
	Static bool      `json:"static"`
	S      evid.BStr `json:"s"`
	How    string    `json:"how,omitempty"` // plain, if, helper
}

var urlPositions = [][2]string{{"a", "href"}, {"area", "href"}, {"img", "src"}, {"form", "action"}, {"button", "formaction"}, {"input", "formaction"}, {"img", "srcset"}, {"source", "srcset"}, {"video", "src"}, {"audio", "src"}, {"link", "href"}, {"input", "src"}}

var jsSpellings = []string{"/x\f,javascript:alert(1)", "/x ,javascript:alert(1)", "/x\t,javascript:alert(1) 2x", "a.png 1x,\njavascript:alert(1)", "a.png\f1x\f,\fjavascript:alert(1)", "/x\r,javascript:alert(1)", "/x\v,javascript:alert(1)",
	"javascript:alert(1)", "JAVASCRIPT:alert(1)", "JaVaScRiPt:alert(1)", "java\tscript:alert(1)", "java\nscript:alert(1)", "jav\rascript:alert(1)", " javascript:alert(1)", "\x01javascript:alert(1)", "\x1f \x00javascript:alert(1)", "javascript\t:alert(1)", "javascript:", "&#106;avascript:alert(1)", "javascript&colon;alert(1)", "jav&#x61;script:alert(1)", "java&Tab;script:alert(1)", "javascript&#58;alert(1)", "&#x6A;&#x61;&#x76;&#x61;&#x73;&#x63;&#x72;&#x69;&#x70;&#x74;&#x3A;alert(1)"}

func genScheme(t *rapid.T) SchemeCase {
	pos := rapid.SampledFrom(urlPositions).Draw(t, "pos")
	c := SchemeCase{Elem: pos[0], Attr: pos[1], Quote: rapid.SampledFrom([]string{`"`, `'`}).Draw(t, "quote")}
	w := rapid.SampledFrom(jsSpellings).Draw(t, "js")
	k := rapid.IntRange(0, 3).Draw(t, "cuts")
	parts := strs.Split(t, w, k)
	c.Loop = k >= 1 && rapid.IntRange(0, 4).Draw(t, "loop") == 0
	lead := rapid.SampledFrom([]string{"", "", "", " ", "\n", "x", "/", "a.png 1x, ", "&#9;", "&#1;"}).Draw(t, "lead")
	if lead != "" {
		c.Pieces = append(c.Pieces, Piece{Static: true, S: evid.BStr(lead)})
	}
	for _, p := range parts {
		st := !c.Loop && rapid.IntRange(0, 3).Draw(t, "static") == 0
		pc := Piece{Static: st, S: evid.BStr(p)}
		if !st {
			pc.How = rapid.SampledFrom([]string{"plain", "plain", "if", "helper"}).Draw(t, "how")
		}
		c.Pieces = append(c.Pieces, pc)
	}
	if tail := rapid.SampledFrom([]string{"", "", "//x", " 2x"}).Draw(t, "tail"); tail != "" {
		c.Pieces = append(c.Pieces, Piece{Static: true, S: evid.BStr(tail)})
	}
	return c
}

func (c SchemeCase) render(inert bool) (string, map[string]interface{}) {
	var b strings.Builder
	data := map[string]interface{}{"C": true}
	var list []string
	pre := ""
	if c.Elem == "link" {
		pre = ` rel="icon"`
	}
	b.WriteString("<" + c.Elem + pre + " " + c.Attr + "=" + c.Quote)
	loopDone := false
	n := 0
	helper := false
	for _, p := range c.Pieces {
		s := strings.ReplaceAll(string(p.S), c.Quote, "")
		if p.Static {
			b.WriteString(strings.ReplaceAll(strings.ReplaceAll(s, "{{", ""), "}}", ""))
			continue
		}
		if inert && s != "" {
			s = "7zq"
		}
		if c.Loop {
			list = append(list, s)
			if !loopDone {
				b.WriteString("{{range .L}}{{.}}{{end}}")
				loopDone = true
			}
			continue
		}
		f := fmt.Sprintf("V%d", n)
		n++
		data[f] = s
		switch p.How {
		case "if":
			b.WriteString("{{if .C}}{{." + f + "}}{{end}}")
		case "helper":
			helper = true
			b.WriteString(`{{template "h" .` + f + `}}`)
		default:
			b.WriteString("{{." + f + "}}")
		}
	}
	data["L"] = list
	b.WriteString(c.Quote + ">")
	text := b.String()
	if helper {
		text = `{{define "h"}}{{.}}{{end}}` + text
	}
	return text, data
}

func attrOf(out, elem, attr string) (htmltok.Attr, bool) {
	r := htmltok.Tokenize([]byte(out), htmltok.Options{})
	for _, t := range r.Tokens {
		if t.Kind == htmltok.StartTag && t.Name == elem {
			for _, a := range t.Attrs {
				if a.Name == attr && !a.Dropped {
					return a, true
				}
			}
		}
	}
	return htmltok.Attr{}, false
}

func checkScheme(c SchemeCase) evid.Outcome {
	text, data := c.render(false)
	o := evid.Outcome{}
	t, perr := tx.Parse(text)
	if perr != nil {
		o.Skip = true
		return o
	}
	out, err := tx.Exec(t, data)
	if err != nil {
		o.Labels = append(o.Labels, "refused")
		o.Skip = true
		return o
	}
	o.Labels = append(o.Labels, "accepted")
	o.NonTrivial = true
	a, ok := attrOf(out, c.Elem, c.Attr)
	if !ok {
		return evid.Viol("attribute lost: template %q output %q", text, out)
	}
	msg := jsURL(c.Elem, a)
	if msg == "" {
		return o
	}
	// the author's own static javascript: URL is not the engine's doing
	itext, idata := c.render(true)
	if it, e := tx.Parse(itext); e == nil {
		if iout, e := tx.Exec(it, idata); e == nil {
			if ia, ok := attrOf(iout, c.Elem, c.Attr); ok && jsURL(c.Elem, ia) != "" {
				o.Labels = append(o.Labels, "static-javascript-url")
				return o
			}
		}
	}
	v := evid.Viol("%s\ntemplate: %q\ndata: %v\noutput: %q", msg, text, data, out)
	// K-adjacent: every action in a URL attribute is sanitized as a whole URL. Signature: the first non-empty
	// piece of the value is untrusted and no untrusted piece is a javascript: URL by itself, i.e. the scheme only
	// arises from concatenating that piece with what follows. (A static first piece is the prefix validator's job.)
	firstDyn, seen, single := false, false, false
	for _, p := range c.Pieces {
		if p.S == "" || (c.Attr == "srcset" && p.Static && strings.Trim(string(p.S), " \t\n\f\r,") == "") {
			continue // empty, or a pure candidate separator in a srcset
		}
		if !seen {
			seen = true
			firstDyn = !p.Static
		}
		s := string(p.S)
		if !p.Static && (whaturl.IsJavascript(s) || whaturl.IsJavascript(html.UnescapeString(s))) {
			single = true
		}
		if !p.Static && c.Attr == "srcset" {
			// a single untrusted piece that is by itself a candidate list with a javascript: candidate
			for _, cd := range srcset.Parse(s) {
				if whaturl.IsJavascript(cd.URL) || whaturl.IsJavascript(html.UnescapeString(cd.URL)) {
					single = true
				}
			}
		}
	}
	if firstDyn && !single {
		v.Finding = "K-adjacent"
	}
	if c.Attr == "srcset" && !single && !firstDyn {
		// inside a later candidate of a srcset: the same piecewise sanitization (K-adjacent), or static text glued
		// in front of an action, which the URLSet context does not validate (K-srcsetprefix)
		v.Finding = "K-adjacent"
		for i, p := range c.Pieces {
			if p.Static && p.S != "" && i+1 < len(c.Pieces) && !c.Pieces[i+1].Static && !strings.ContainsAny(string(p.S[len(p.S)-1:]), " \t\n\f\r,") {
				v.Finding = "K-srcsetprefix"
			}
		}
	}
	return v
}

// ---------- sub-property "origin": untrusted data never changes the origin of a code-loading URL ----------

type OriginCase struct {
	Shape  string    `json:"shape"` // code-loading element with the URL hole @@ (value is PREFIX + data)
	Quote  string    `json:"quote"`
	Prefix evid.BStr `json:"prefix"` // static prefix
	Data   evid.BStr `json:"data"`   // untrusted continuation (no markers: it may start with a digit or a hex letter)
}

var originShapes = []string{`<script src=Q@@Q></script>`, `<iframe src=Q@@Q></iframe>`, `<link rel="stylesheet" href=Q@@Q>`, `<frame src=Q@@Q>`, `<embed src=Q@@Q>`, `<object data=Q@@Q></object>`, `<base href=Q@@Q>`, `<SCRIPT SRC=Q@@Q></SCRIPT>`}
var originBases = []string{"https://good.example", "//good.example", "https://good.example/", "//good.example/", "/", "/s", "/s/", "", "https://", "//", "https://good.example:443", "https://good.example/a/", "about:blank#", "https:", "http://good.example/", "HTTPS://good.example"}
var originConts = []string{"0.evil.example", "47.evil.example", ".evil.example/x.js", "@evil.example/x.js", ":443@evil.example/", "/evil.example/x.js", "//evil.example/x.js", "\\evil.example/x.js", "\\\\evil.example", "evil.example", "x.js", "a/b.js", "?x=1", "#f", "../x.js", "..", "%2f%2fevil.example", "f;.evil.example", "2f.evil.example", ";.evil.example", "/", "javascript:alert(1)", " //evil.example", "\t//evil.example", "https://evil.example/x.js"}
var slashRefs = strs.AllCharRefSpellings("/:@.\\?#")

func genOrigin(t *rapid.T) OriginCase {
	c := OriginCase{Shape: rapid.SampledFrom(originShapes).Draw(t, "shape"), Quote: rapid.SampledFrom([]string{`"`, `'`}).Draw(t, "quote")}
	p := rapid.SampledFrom(originBases).Draw(t, "base")
	n := rapid.IntRange(0, 2).Draw(t, "nref")
	for i := 0; i < n; i++ {
		if rapid.Bool().Draw(t, "ref") {
			p += rapid.SampledFrom(slashRefs).Draw(t, "refpiece")
		} else {
			p += rapid.SampledFrom([]string{"/", "a", ".", "s/", "%2f", "?", "#", "@", ":", "\\"}).Draw(t, "lit")
		}
	}
	c.Prefix = evid.BStr(p)
	if rapid.IntRange(0, 3).Draw(t, "hostiledata") == 0 {
		c.Data = evid.BStr(strs.Hostile(3, originConts).Draw(t, "data"))
	} else {
		c.Data = evid.BStr(rapid.SampledFrom(originConts).Draw(t, "data"))
	}
	return c
}

func (c OriginCase) run(data string) (string, error, string) {
	text := strings.ReplaceAll(strings.ReplaceAll(c.Shape, "Q", c.Quote), "@@", strings.ReplaceAll(string(c.Prefix), c.Quote, "")+"{{.V}}")
	t, perr := tx.Parse(text)
	if perr != nil {
		return "", perr, text
	}
	out, err := tx.Exec(t, map[string]interface{}{"V": data})
	return out, err, text
}

func codeURL(out string) (string, bool) {
	r := htmltok.Tokenize([]byte(out), htmltok.Options{})
	for _, t := range r.Tokens {
		if t.Kind != htmltok.StartTag {
			continue
		}
		for _, a := range t.Attrs {
			if !a.Dropped && codeLoading(t.Name, a.Name, t.Attrs) {
				return a.Value, true
			}
		}
	}
	return "", false
}

func checkOrigin(c OriginCase) evid.Outcome {
	o := evid.Outcome{}
	out, err, text := c.run(string(c.Data))
	if err != nil {
		o.Labels = append(o.Labels, "refused")
		o.NonTrivial = true
		return o
	}
	iout, ierr, _ := c.run("zq")
	if ierr != nil {
		o.Skip = true
		return o
	}
	v, ok1 := codeURL(out)
	iv, ok2 := codeURL(iout)
	if !ok1 || !ok2 {
		return evid.Viol("code-loading attribute lost: template %q data %q output %q", text, c.Data, out)
	}
	o.Labels = append(o.Labels, "accepted")
	o.NonTrivial = true
	if og, oi := originOf(v), originOf(iv); og != oi {
		return evid.Viol("untrusted data changed the origin of a code-loading URL: template %q\ndata %q -> value %q origin %s\ndata \"zq\" -> value %q origin %s", text, c.Data, v, og, iv, oi)
	}
	if whaturl.IsJavascript(v) {
		return evid.Viol("code-loading URL became a javascript: URL: template %q data %q value %q", text, c.Data, v)
	}
	return o
}

// ---------- sub-property "sets": marker locations in every output of an API history ----------

type SetCase struct {
	H hist.History `json:"history"`
}

func genSet(t *rapid.T) SetCase {
	return SetCase{*hist.Gen(t, hist.Options{MaxOps: 10, MixedHelpers: rapid.Bool().Draw(t, "mixedh"), BadMembers: rapid.Bool().Draw(t, "bad"), RuntimeBad: true, Unbalanced: true, Markers: true, ParseAfter: true, Clones: rapid.IntRange(0, 3).Draw(t, "clones") == 0})}
}

func checkSet(c SetCase) evid.Outcome {
	o := evid.Outcome{}
	results, r := hist.Run(&c.H, 0)
	defer r.Close()
	for i, op := range c.H.Ops {
		if !hist.IsExec(op.Kind) || results[i].Nil || results[i].Panic != "" {
			continue
		}
		if op.Data != nil && op.Data.Typ != "" {
			continue // V is a trusted value in this call
		}
		if msg := locate(results[i].Out); msg != "" {
			return evid.Viol("step %d %+v: %s\noutput (err=%q): %q\nhistory: %+v", i, op, msg, results[i].Err, results[i].Out, c.H.Ops)
		}
		if results[i].Err == "" && markerInAttrOrSpecial(results[i].Out) {
			o.NonTrivial = true
		}
	}
	// second pass: the same history with javascript: URLs as untrusted data (no markers, so that the scheme can form);
	// the template pool has no static javascript: URL, so any javascript: URL attribute in an output is a violation
	js := c.H
	js.Ops = append([]hist.Op{}, c.H.Ops...)
	for i, op := range js.Ops {
		if op.Data == nil || op.Data.Typ != "" {
			continue
		}
		d := *op.Data
		d.U = evid.BStr(jsSpellings[(7+i)%len(jsSpellings)])
		d.V = evid.BStr(jsSpellings[(7+2*i)%len(jsSpellings)])
		js.Ops[i].Data = &d
	}
	res2, r2 := hist.Run(&js, 0)
	defer r2.Close()
	for i, op := range js.Ops {
		if !hist.IsExec(op.Kind) || i >= len(res2) || res2[i].Nil || res2[i].Panic != "" || (op.Data != nil && op.Data.Typ != "") {
			continue
		}
		tk := htmltok.Tokenize([]byte(res2[i].Out), htmltok.Options{})
		for _, t := range tk.Tokens {
			for _, a := range t.Attrs {
				if msg := jsURL(t.Name, a); msg != "" {
					return evid.Viol("step %d %+v (data U=%q V=%q): %s\noutput: %q\nhistory: %+v", i, op, op.Data.U, op.Data.V, msg, res2[i].Out, js.Ops)
				}
			}
		}
	}
	return o
}

func TestPropSets(t *testing.T)     { evid.RunProp(t, "sets", 0.25, genSet, checkSet) }
func TestPropOrigin(t *testing.T)   { evid.RunProp(t, "origin", 0.5, genOrigin, checkOrigin) }
func TestPropLocation(t *testing.T) { evid.RunProp(t, "location", 1, genLoc, checkLoc) }
func TestPropCode(t *testing.T)     { evid.RunProp(t, "code", 0.5, genCode, checkCode) }
func TestPropScheme(t *testing.T)   { evid.RunProp(t, "scheme", 0.7, genScheme, checkScheme) }

// TestPropCodeAll: every shape x wrapper x a fixed payload list (deterministic part).
func TestPropCodeAll(t *testing.T) {
	shard, n := evid.Shard()
	wraps := []string{"plain", "if", "else", "range", "with", "helper", "print", "var", "rec", "recbal", "reserved", "htmlfunc"}
	pls := []string{"", "x", "\" onx=\"", "' onx='", "</script>", "-->", "javascript:alert(1)", "//evil.test/", " ", "\\", ".evil.test/"}
	var all []CodeCase
	for _, s := range codeShapes {
		for _, w := range wraps {
			for _, p := range pls {
				all = append(all, CodeCase{Shape: s, Wrap: w, Payload: evid.BStr(p)})
			}
			for _, ty := range tx.TypeNames {
				all = append(all, CodeCase{Shape: s, Wrap: w, Payload: "x", Typed: ty})
			}
		}
	}
	i := shard
	evid.RunEnum(t, "codeall", func() (CodeCase, bool) {
		if i >= len(all) {
			return CodeCase{}, false
		}
		c := all[i]
		i += n
		return c, true
	}, checkCode)
	evid.SetExhaustive("codeall")
}

// FuzzLocation: coverage-guided exploration of the same generator (rapid.MakeFuzz turns the fuzzer's bytes into draws).
func FuzzLocation(f *testing.F) {
	f.Fuzz(rapid.MakeFuzz(func(t *rapid.T) {
		c := genLoc(t)
		o := checkLoc(c)
		if o.Violation != "" && !(o.Finding != "" && evid.IsKnown(o.Finding)) {
			evid.Record("fuzzlocation", c, o)
			t.Fatalf("%s replay=%s", o.Violation, evid.SaveFailure("fuzzlocation"))
		}
	}))
}

// FuzzScheme: coverage-guided exploration of the same generator (rapid.MakeFuzz turns the fuzzer's bytes into draws).
func FuzzScheme(f *testing.F) {
	f.Fuzz(rapid.MakeFuzz(func(t *rapid.T) {
		c := genScheme(t)
		o := checkScheme(c)
		if o.Violation != "" && !(o.Finding != "" && evid.IsKnown(o.Finding)) {
			evid.Record("fuzzscheme", c, o)
			t.Fatalf("%s replay=%s", o.Violation, evid.SaveFailure("fuzzscheme"))
		}
	}))
}

func TestReplay(t *testing.T) {
	evid.Replay(t, evid.R("fuzzlocation", checkLoc), evid.R("fuzzscheme", checkScheme), evid.R("location", checkLoc), evid.R("code", checkCode), evid.R("codeall", checkCode), evid.R("scheme", checkScheme), evid.R("origin", checkOrigin), evid.R("sets", checkSet))
}
