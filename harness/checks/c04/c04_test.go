// C04: the sanitization policy is default-deny and never weaker than the reviewed policy.
package c04

import (
	"encoding/json"
	"fmt"
	"html"
	"os"
	"path/filepath"
	"sort"
	"strings"
	"testing"

	"pgregory.net/rapid"

	"verif/evid"
	"verif/gen/names"
	"verif/oracle/htmltok"
	"verif/oracle/rfc3986"
	"verif/oracle/srcset"
	"verif/oracle/unicodex"
	"verif/oracle/whaturl"
	"verif/tx"
)

func TestMain(m *testing.M) {
	loadPolicy()
	evid.Main(m, "C04")
}

type policy struct {
	ElementContent      map[string]string            `json:"elementContent"`
	ElementSpecificAttr map[string]map[string]string `json:"elementSpecificAttr"`
	GlobalAttr          map[string]string            `json:"globalAttr"`
	AllowedVoidElements []string                     `json:"allowedVoidElements"`
	URLLinkRelVals      []string                     `json:"urlLinkRelVals"`
	Enums               map[string][]string          `json:"enums"`
}

var pol policy
var allowedVoid, urlRel = map[string]bool{}, map[string]bool{}

func loadPolicy() {
	b, err := os.ReadFile(filepath.Join(evid.Root(), "harness", "policy", "reviewed_policy.json"))
	if err != nil {
		panic(err)
	}
	if err := json.Unmarshal(b, &pol); err != nil {
		panic(err)
	}
	for _, v := range pol.AllowedVoidElements {
		allowedVoid[v] = true
	}
	for _, v := range pol.URLLinkRelVals {
		urlRel[v] = true
	}
}

func asciiLower(s string) string {
	b := []byte(s)
	for i, c := range b {
		if 'A' <= c && c <= 'Z' {
			b[i] = c + 32
		}
	}
	return string(b)
}

// dataName: independent recogniser of data-[a-z_][-a-z0-9_]* (after ASCII lower-casing).
func dataName(a string) bool {
	if !strings.HasPrefix(a, "data-") || len(a) < 6 {
		return false
	}
	r := a[5:]
	if !(r[0] == '_' || 'a' <= r[0] && r[0] <= 'z') {
		return false
	}
	for i := 1; i < len(r); i++ {
		c := r[i]
		if !(c == '-' || c == '_' || 'a' <= c && c <= 'z' || '0' <= c && c <= '9') {
			return false
		}
	}
	return true
}

// attrClass is the reviewed lookup: the class the policy demands for (element, attribute, link rel).
func attrClass(elem, attr, rel string) string {
	e, a := asciiLower(elem), asciiLower(attr)
	if e == "link" && a == "href" {
		toks := strings.Fields(asciiLower(rel))
		all := len(toks) > 0
		for _, t := range toks {
			if !urlRel[t] {
				all = false
			}
		}
		if all {
			return "TrustedResourceURLOrURL"
		}
	}
	if dataName(a) {
		return "None"
	}
	if c, ok := pol.ElementSpecificAttr[a][e]; ok {
		return c
	}
	if c, ok := pol.GlobalAttr[a]; ok {
		if _, ok := pol.ElementContent[e]; ok || allowedVoid[e] {
			return c
		}
	}
	return "Rejected"
}

func contentClass(elem string) string {
	if c, ok := pol.ElementContent[asciiLower(elem)]; ok {
		return c
	}
	return "Rejected"
}

// Case: one (name, position) pair; the probe battery is fixed.
type Case struct {
	Pos   string `json:"pos"` // content, dq, sq, unquoted, partial, tagname, tagsuffix, attrname, attrsuffix, condelem, condattr
	Elem  string `json:"elem"`
	Attr  string `json:"attr,omitempty"`
	Elem2 string `json:"elem2,omitempty"`
	Attr2 string `json:"attr2,omitempty"`
	Rel   string `json:"rel,omitempty"`
}

func (c Case) template() string {
	pre := ""
	if c.Rel != "" {
		pre = ` rel="` + c.Rel + `"`
	}
	switch c.Pos {
	case "content":
		return "<" + c.Elem + ">{{.V}}</" + c.Elem + ">"
	case "dq":
		return "<" + c.Elem + pre + " " + c.Attr + `="{{.V}}">`
	case "sq":
		return "<" + c.Elem + pre + " " + c.Attr + `='{{.V}}'>`
	case "unquoted":
		return "<" + c.Elem + pre + " " + c.Attr + `={{.V}}>`
	case "partial":
		return "<" + c.Elem + pre + " " + c.Attr + `="x{{.V}}">`
	case "tagname":
		return "<{{.V}}>"
	case "tagsuffix":
		return "<" + c.Elem + "{{.V}}>"
	case "attrname":
		return "<" + c.Elem + ` {{.V}}="x">`
	case "attrsuffix":
		return "<" + c.Elem + " " + c.Attr + `{{.V}}="x">`
	case "condelem":
		return "{{if .C}}<" + c.Elem + "{{else}}<" + c.Elem2 + "{{end}} " + c.Attr + `="{{.V}}">`
	case "condattr":
		return "<" + c.Elem + " {{if .C}}" + c.Attr + "{{else}}" + c.Attr2 + `{{end}}="{{.V}}">`
	case "condattrempty":
		return "<" + c.Elem + " {{if .C}}" + c.Attr + `{{end}}="{{.V}}">`
	case "condboth":
		return "{{if .C}}<" + c.Elem + "{{else}}<" + c.Elem2 + "{{end}} {{if .D}}" + c.Attr + "{{else}}" + c.Attr2 + `{{end}}="{{.V}}">`
	case "condpartial":
		return "<" + c.Elem + " " + c.Attr + `="{{if .C}}{{else}}` + c.Attr2 + `{{end}}{{.V}}">`
	case "rangepartial":
		return "<" + c.Elem + " " + c.Attr + `="{{range .L}}{{$.V}}x{{end}}">`
	case "condcontent":
		return "{{if .C}}<" + c.Elem + ">{{else}}<" + c.Elem2 + ">{{end}}{{.V}}"
	case "cmtcontent":
		// a comment in front of the action does not change whose content this is
		return "<" + c.Elem + "><!-- c -->{{.V}}</" + c.Elem + ">"
	case "suffix":
		// static text after the action: a partial value as well
		return "<" + c.Elem + pre + " " + c.Attr + `="{{.V}}x">`
	case "slashsep":
		// "/" separates attributes like white space
		return "<" + c.Elem + pre + "/" + c.Attr + `="{{.V}}">`
	case "slashsep2":
		return "<" + c.Elem + pre + " data-q9/" + c.Attr + `="{{.V}}">`
	case "wssplit":
		// the white space between two attribute names comes from a branch: data-q9 A="..." or data-q9A="..."
		return "<" + c.Elem + " data-q9{{if .C}} {{end}}" + c.Attr + `="{{.V}}">`
	case "namesplit":
		// the attribute name is completed by the text after an empty template node
		k := len(c.Attr) / 2
		return "<" + c.Elem + " " + c.Attr[:k] + "{{if .C}}{{end}}" + c.Attr[k:] + `="{{.V}}">`
	case "rangename":
		// the attribute name is the body of a loop: with two iterations a browser sees the name twice, glued
		return "<" + c.Elem + " {{range .L}}" + c.Attr + "{{else}}" + c.Attr + `{{end}}="{{.V}}">`
	case "nestedcontent":
		// the action follows a child element: it is still content of E
		return "<" + c.Elem + "><b></b>{{.V}}</" + c.Elem + ">"
	case "tagsuffixsplit":
		// the tag name may go on: content of E, or of Ex
		return "<" + c.Elem + "{{if .C}}x{{end}}>{{.V}}"
	case "tagsplit":
		// the tag name is completed by a branch
		k := (len(c.Elem) + 1) / 2
		return "<" + c.Elem[:k] + "{{if .C}}" + c.Elem[k:] + "{{end}} " + c.Attr + `="{{.V}}">`
	}
	panic("pos " + c.Pos)
}

type probe struct {
	name string
	kind string // "" plain string, or a safe type name
	s    string
}

const hostile = "x\" y='z' <b>&amp \t"

var probes = func() []probe {
	ps := []probe{{"benign", "", "abc"}, {"hostile", "", hostile}, {"javascript", "", "javascript:alert(1)"}, {"empty", "", ""}}
	for _, k := range tx.TypeNames {
		ps = append(ps, probe{"typed-" + k, k, "zq"})
	}
	for _, w := range []string{"async", "auto", "ltr", "rtl", "eager", "lazy", "_blank", "_self"} {
		ps = append(ps, probe{"word-" + w, "", w})
	}
	// near misses of the listed words: other letter case, Unicode characters that fold to ASCII, surrounding space
	for _, w := range []string{"ASYNC", "Auto", "RTL", "Lazy", "EAGER", "_BLANK", "_Self", "_blan" + string(rune(0x212a)), "a" + string(rune(0x17f)) + "ync", " ltr", "ltr ", "ltr\n", "lazy\x00"} {
		ps = append(ps, probe{"nearword-" + w, "", w})
	}
	return ps
}()

var typedOnly = map[string]string{"Script": "Script", "StyleSheet": "StyleSheet", "Style": "Style", "Identifier": "Identifier", "HTMLValOnly": "HTML", "TrustedResourceURL": "TrustedResourceURL"}

func normalizedURL(v string) bool {
	for i := 0; i < len(v); i++ {
		c := v[i]
		switch {
		case rfc3986.Unreserved(c), strings.IndexByte("!#$&*+,/:;=?@[]", c) >= 0:
		case c == '%' && rfc3986.IsEscape(v, i):
		default:
			return false
		}
	}
	return true
}

// judge: may the engine, for a position whose reviewed class is cls, answer probe p with (out, err)?
// elemName/attrName locate the value in the output. Returns "" if acceptable.
func judge(cls string, c Case, p probe, out string, err error, bc, bd bool) string {
	if strings.HasPrefix(cls, "Range:") {
		// <E A="{{range .L}}{{$.V}}x{{end}}"> with two elements: from the second iteration on the action follows the
		// static text "x": enumerated and URL-like contexts must refuse, typed-only contexts admit their own type only
		cls = cls[len("Range:"):]
		if cls == "Rejected" {
			if err == nil {
				return fmt.Sprintf("position not in the reviewed policy, but probe %s was accepted: output %q", p.name, out)
			}
			return ""
		}
		if err != nil {
			return ""
		}
		if own, ok := typedOnly[cls]; ok {
			if p.kind != own {
				return fmt.Sprintf("class %s is typed-only, but probe %s was accepted inside a range: output %q", cls, p.name, out)
			}
			return ""
		}
		switch cls {
		case "None", "URLSet":
			return ""
		}
		return fmt.Sprintf("class %s: an action that follows the static text \"x\" from the second loop iteration on must be refused, probe %s gave %q", cls, p.name, out)
	}
	if strings.HasPrefix(cls, "Suffix:") {
		// <E A="{{.V}}x">: in enumerated contexts a static partial value must be refused; unlisted positions stay
		// refused; for the other classes the suffix makes no difference that this check judges
		cls = cls[len("Suffix:"):]
		if err != nil {
			return ""
		}
		switch cls {
		case "Rejected":
			return fmt.Sprintf("position not in the reviewed policy, but probe %s was accepted: output %q", p.name, out)
		case "AsyncEnum", "DirEnum", "LoadingEnum", "TargetEnum":
			return fmt.Sprintf("class %s: static partial value (suffix \"x\") must be refused, probe %s gave %q", cls, p.name, out)
		}
		if own, ok := typedOnly[cls]; ok && p.kind != own {
			return fmt.Sprintf("class %s is typed-only, but probe %s (not a %s value) was accepted: output %q", cls, p.name, own, out)
		}
		return ""
	}
	partialStatic := ""
	if strings.HasPrefix(cls, "Partial:") {
		// {{if}}{{else}}STATIC{{end}}{{.V}} rendered with the static branch: a static partial value
		cls = cls[len("Partial:"):]
		partialStatic = html.UnescapeString(c.Attr2)
	}
	if cls == "Rejected" {
		if err == nil {
			return fmt.Sprintf("position not in the reviewed policy, but probe %s was accepted: output %q", p.name, out)
		}
		return ""
	}
	if err != nil {
		return "" // stricter is never an alarm
	}
	if c.Pos == "nestedcontent" {
		return "" // listed element content: judged by the "content" position
	}
	if c.Pos == "tagname" {
		// "<{{.V}}>": the engine documents that such a '<' is text; acceptable iff no tag results
		r := htmltok.Tokenize([]byte(out), htmltok.Options{})
		for _, tk := range r.Tokens {
			if tk.Kind != htmltok.Text {
				return fmt.Sprintf("probe %s in a tag-name position produced markup: output %q", p.name, out)
			}
		}
		return ""
	}
	if own, ok := typedOnly[cls]; ok {
		if p.kind != own {
			return fmt.Sprintf("class %s is typed-only, but probe %s (not a %s value) was accepted: output %q", cls, p.name, own, out)
		}
		return ""
	}
	// locate the value
	r := htmltok.Tokenize([]byte(out), htmltok.Options{NoStateSwitch: true})
	if len(r.Tokens) == 0 || r.Tokens[0].Kind != htmltok.StartTag {
		return fmt.Sprintf("output %q does not start with a start tag", out)
	}
	st := r.Tokens[0]
	elem := c.Elem
	if !bc && (c.Pos == "condelem" || c.Pos == "condcontent" || c.Pos == "condboth") {
		elem = c.Elem2
	}

	if c.Pos == "tagsplit" && !bc {
		elem = c.Elem[:(len(c.Elem)+1)/2]
	}
	if c.Pos == "tagsuffixsplit" && bc {
		elem += "x"
	}
	if st.Name != asciiLower(elem) {
		return fmt.Sprintf("output %q: first tag is %q, want %q", out, st.Name, asciiLower(elem))
	}
	want := unicodex.Coerce(p.s)
	want = strings.ReplaceAll(strings.ReplaceAll(want, "\r\n", "\n"), "\r", "\n")
	if c.Pos == "content" || c.Pos == "condcontent" || c.Pos == "cmtcontent" || c.Pos == "tagsuffixsplit" {
		// text run up to the end tag (or end of output)
		text, raw := "", ""
		idx := 1
		if idx < len(r.Tokens) && r.Tokens[idx].Kind == htmltok.Text {
			text, raw = r.Tokens[idx].Data, string(r.Input[r.Tokens[idx].Start:r.Tokens[idx].End])
			idx++
		}
		okTail := idx == len(r.Tokens) || (idx == len(r.Tokens)-1 && r.Tokens[idx].Kind == htmltok.EndTag && r.Tokens[idx].Name == st.Name)
		switch cls {
		case "HTML":
			if p.kind == "HTML" {
				return ""
			}
		case "RCDATA":
		default:
			return fmt.Sprintf("internal: unexpected content class %s", cls)
		}
		if !okTail || text != want || strings.ContainsAny(raw, "<>") {
			return fmt.Sprintf("class %s: probe %s must be emitted HTML-escaped as one text run, output %q", cls, p.name, out)
		}
		return ""
	}
	attr := c.Attr
	if (c.Pos == "condattr" && !bc) || (c.Pos == "condboth" && !bd) {
		attr = c.Attr2
	}
	if c.Pos == "wssplit" && !bc {
		attr = "data-q9" + c.Attr
	}
	if c.Pos == "rangename" {
		attr = c.Attr + c.Attr
	}
	var av *htmltok.Attr
	for i := range st.Attrs {
		if st.Attrs[i].Name == asciiLower(attr) && !st.Attrs[i].Dropped {
			av = &st.Attrs[i]
		}
	}
	nattrs := 1
	if c.Rel != "" {
		nattrs = 2
	}
	if c.Pos == "slashsep2" || c.Pos == "wssplit" && bc {
		nattrs++
	}
	if av == nil || len(st.Attrs) != nattrs || len(r.Tokens) != 1 || r.Final.State != "Data" {
		return fmt.Sprintf("probe %s broke the tag structure: output %q", p.name, out)
	}
	if strings.ContainsAny(av.RawValue, "<>\"'") {
		return fmt.Sprintf("probe %s: raw attribute value %q is not HTML-escaped (output %q)", p.name, av.RawValue, out)
	}
	v := av.Value
	isPartial := c.Pos == "partial"
	if c.Pos == "partial" {
		if !strings.HasPrefix(v, "x") {
			return fmt.Sprintf("probe %s: static prefix lost in %q", p.name, out)
		}
		v = v[1:]
	}
	if partialStatic != "" {
		if !strings.HasPrefix(v, partialStatic) {
			return fmt.Sprintf("probe %s: static prefix lost in %q", p.name, out)
		}
		v = v[len(partialStatic):]
		isPartial = true
	}
	switch cls {
	case "None":
		if v != want {
			return fmt.Sprintf("class None: probe %s must be emitted escaped and unchanged, got value %q (output %q)", p.name, v, out)
		}
	case "URL", "TrustedResourceURLOrURL":
		if isPartial {
			// after the static prefix "x" the engine must refuse (prefix could still become a scheme)
			return fmt.Sprintf("class %s: probe %s accepted after the scheme-less static prefix \"x\": output %q", cls, p.name, out)
		}
		if p.kind == "URL" || (p.kind == "TrustedResourceURL" && cls == "TrustedResourceURLOrURL") {
			return ""
		}
		if whaturl.IsJavascript(av.Value) {
			return fmt.Sprintf("class %s: probe %s produced a javascript: URL %q", cls, p.name, av.Value)
		}
		if !normalizedURL(av.Value) {
			return fmt.Sprintf("class %s: probe %s produced a value that is not normalised: %q", cls, p.name, av.Value)
		}
	case "URLSet":
		for _, cd := range srcset.Parse(av.Value) {
			if whaturl.IsJavascript(cd.URL) {
				return fmt.Sprintf("class URLSet: probe %s produced a javascript: candidate in %q", p.name, av.Value)
			}
		}
		if p.name == "hostile" && av.Value != "about:invalid#zGoSafez" && !isPartial {
			// the hostile probe has two descriptors: no candidate may survive
			return fmt.Sprintf("class URLSet: hostile probe survived as %q", av.Value)
		}
	case "AsyncEnum", "DirEnum", "LoadingEnum", "TargetEnum":
		if isPartial {
			return fmt.Sprintf("class %s: static partial value must be refused, probe %s gave %q", cls, p.name, out)
		}
		ok := false
		for _, w := range pol.Enums[cls] {
			if av.Value == w {
				ok = true
			}
		}
		if !ok {
			return fmt.Sprintf("class %s: probe %s emitted %q which is not one of %q", cls, p.name, av.Value, pol.Enums[cls])
		}
	default:
		return fmt.Sprintf("internal: unhandled class %s", cls)
	}
	return ""
}

// classOf: the reviewed class of the position that is actually rendered for the branch choices (bc: element / first
// conditional, bd: attribute conditional of "condboth").
func classOf(c Case, bc, bd bool) string {
	elem, attr := c.Elem, c.Attr
	switch c.Pos {
	case "condelem", "condcontent":
		if !bc {
			elem = c.Elem2
		}
	case "condattr":
		if !bc {
			attr = c.Attr2
		}
	case "condboth":
		if !bc {
			elem = c.Elem2
		}
		if !bd {
			attr = c.Attr2
		}
	case "condattrempty":
		if !bc {
			return "Rejected" // the attribute has no name at all
		}
	}
	switch c.Pos {
	case "wssplit":
		if !bc {
			attr = "data-q9" + c.Attr
		}
		return attrClass(elem, attr, c.Rel)
	case "tagsplit":
		if !bc {
			elem = c.Elem[:(len(c.Elem)+1)/2]
		}
		return attrClass(elem, attr, c.Rel)
	case "suffix":
		return "Suffix:" + attrClass(elem, attr, c.Rel)
	case "tagsuffixsplit":
		if bc {
			elem += "x"
		}
		return contentClass(elem)
	case "rangename":
		return attrClass(elem, attr+attr, c.Rel)
	}
	switch c.Pos {
	case "content", "condcontent", "cmtcontent", "nestedcontent":
		return contentClass(elem)
	case "dq", "sq", "partial", "condelem", "condattr", "condboth", "condattrempty", "slashsep", "slashsep2", "namesplit":
		return attrClass(elem, attr, c.Rel)
	case "rangepartial":
		return "Range:" + attrClass(elem, attr, c.Rel)
	case "condpartial":
		if bc {
			return attrClass(elem, attr, c.Rel)
		}
		return "Partial:" + attrClass(elem, attr, c.Rel)
	case "tagname":
		return "TextOnly"
	default: // unquoted, tagsuffix, attrname, attrsuffix
		return "Rejected"
	}
}

func check(c Case) evid.Outcome {
	text := c.template()
	o := evid.Outcome{NonTrivial: true, Key: c.Pos + "|" + c.Elem + "|" + c.Attr + "|" + c.Elem2 + "|" + c.Attr2 + "|" + c.Rel}
	t, perr := tx.Parse(text)
	if perr != nil {
		o.Skip = true
		o.Labels = append(o.Labels, "parse-error")
		return o
	}
	accepted := 0
	type br struct{ c, d bool }
	branches := []br{{true, true}}
	switch c.Pos {
	case "condelem", "condattr", "condcontent", "condattrempty", "condpartial", "wssplit", "namesplit", "tagsplit", "tagsuffixsplit":
		branches = []br{{true, true}, {false, true}}
	case "condboth":
		branches = []br{{true, true}, {true, false}, {false, true}, {false, false}}
	}
	for _, p := range probes {
		for _, b := range branches {
			cls := classOf(c, b.c, b.d)
			out, err := tx.Exec(t, map[string]interface{}{"V": tx.Typed(p.kind, p.s), "C": b.c, "D": b.d, "L": []int{1, 2}})
			if err == nil {
				accepted++
			}
			if msg := judge(cls, c, p, out, err, b.c, b.d); msg != "" {
				v := evid.Viol("template %q, branches C=%v D=%v (reviewed class %s): %s", text, b.c, b.d, cls, msg)
				if c.Pos == "rangename" {
					v.Finding = "K-rangeglue"
				}
				if c.Pos == "nestedcontent" {
					v.Finding = "K-nostack"
				}
				return v
			}
		}
	}
	o.Labels = append(o.Labels, "class-"+classOf(c, true, true))
	if accepted > 0 {
		o.Labels = append(o.Labels, "some-probe-accepted")
	} else {
		o.Labels = append(o.Labels, "all-probes-refused")
	}
	return o
}

// ---------- enumeration of the table part ----------

func tableCases() []Case {
	var cs []Case
	elems := map[string]bool{}
	for e := range pol.ElementContent {
		elems[e] = true
	}
	for e := range allowedVoid {
		elems[e] = true
	}
	for _, m := range pol.ElementSpecificAttr {
		for e := range m {
			elems[e] = true
		}
	}
	var es, as []string
	for e := range elems {
		es = append(es, e)
	}
	attrs := map[string]bool{}
	for a := range pol.GlobalAttr {
		attrs[a] = true
	}
	for a := range pol.ElementSpecificAttr {
		attrs[a] = true
	}
	for a := range attrs {
		as = append(as, a)
	}
	sort.Strings(es)
	sort.Strings(as)
	for _, e := range es {
		for _, ev := range names.CaseVariants(e) {
			if !names.VoidElements[e] {
				cs = append(cs, Case{Pos: "content", Elem: ev})
			}
			cs = append(cs, Case{Pos: "tagsuffix", Elem: ev}, Case{Pos: "attrname", Elem: ev}, Case{Pos: "tagsuffixsplit", Elem: ev})
			if !names.VoidElements[e] && contentClass(e) == "HTML" {
				cs = append(cs, Case{Pos: "nestedcontent", Elem: ev})
			}
			if !names.VoidElements[e] && contentClass(e) != "RCDATA" {
				// (inside title / textarea "<!--" is text, not a comment)
				cs = append(cs, Case{Pos: "cmtcontent", Elem: ev})
			}
		}
	}
	// every element-specific row and every global attribute on every listed element, all positions
	for _, a := range as {
		for _, e := range es {
			for _, pos := range []string{"dq", "sq", "unquoted", "partial", "suffix", "slashsep"} {
				cs = append(cs, Case{Pos: pos, Elem: e, Attr: a})
			}
		}
		for _, e := range []string{"a", "div", "img", "link", "script", "input", "iframe", "foo"} {
			for _, pos := range []string{"slashsep2", "wssplit", "namesplit", "tagsplit"} {
				cs = append(cs, Case{Pos: pos, Elem: e, Attr: a})
			}
		}
		cs = append(cs, Case{Pos: "dq", Elem: "DIV", Attr: strings.ToUpper(a)}, Case{Pos: "attrsuffix", Elem: "div", Attr: a})
	}
	// link rel combinations
	rels := append([]string{"stylesheet", "manifest", "import", "modulepreload", "serviceworker", "", "x"}, pol.URLLinkRelVals...)
	for _, r1 := range rels {
		cs = append(cs, Case{Pos: "dq", Elem: "link", Attr: "href", Rel: r1})
		for _, r2 := range []string{"stylesheet", "icon", "STYLESHEET", "alternate"} {
			if r1 != "" {
				cs = append(cs, Case{Pos: "dq", Elem: "link", Attr: "href", Rel: r1 + " " + r2}, Case{Pos: "sq", Elem: "LINK", Attr: "HREF", Rel: r2 + "\t" + r1})
			}
		}
	}
	cs = append(cs, Case{Pos: "tagname"})
	// conditional shapes over representative rows of every class
	reps := [][2]string{{"a", "href"}, {"a", "title"}, {"a", "target"}, {"div", "dir"}, {"div", "id"}, {"div", "style"}, {"img", "src"}, {"img", "srcset"}, {"img", "loading"}, {"script", "src"}, {"script", "async"}, {"iframe", "srcdoc"}, {"form", "action"}, {"input", "accept"}, {"div", "data-x"}, {"link", "href"}, {"div", "onclick"}, {"foo", "title"}}
	for _, r1 := range reps {
		cs = append(cs, Case{Pos: "rangename", Elem: r1[0], Attr: r1[1]}, Case{Pos: "rangepartial", Elem: r1[0], Attr: r1[1]}, Case{Pos: "condattrempty", Elem: r1[0], Attr: r1[1]}, Case{Pos: "condpartial", Elem: r1[0], Attr: r1[1], Attr2: "x"}, Case{Pos: "condpartial", Elem: r1[0], Attr: r1[1], Attr2: "java"}, Case{Pos: "condpartial", Elem: r1[0], Attr: r1[1], Attr2: "/p/"})
		for _, r2 := range reps {
			cs = append(cs, Case{Pos: "condboth", Elem: r1[0], Attr: r1[1], Elem2: r2[0], Attr2: r2[1]})
			cs = append(cs, Case{Pos: "condelem", Elem: r1[0], Elem2: r2[0], Attr: r1[1]}, Case{Pos: "condattr", Elem: r1[0], Attr: r1[1], Attr2: r2[1]})
		}
	}
	return cs
}

func TestPropTable(t *testing.T) {
	shard, n := evid.Shard()
	cs := tableCases()
	i := shard
	evid.RunEnum(t, "table", func() (Case, bool) {
		if i >= len(cs) {
			return Case{}, false
		}
		c := cs[i]
		i += n
		return c, true
	}, check)
	evid.SetExhaustive("table")
}

// ---------- the unbounded part ----------

var allElems = func() []string {
	var out []string
	out = append(out, names.HTMLElements...)
	out = append(out, names.SVGElements...)
	out = append(out, names.MathMLElements...)
	out = append(out, names.CustomElements...)
	return out
}()

var allAttrs = func() []string {
	var out []string
	out = append(out, names.Attributes...)
	out = append(out, names.EventHandlers...)
	out = append(out, names.DataShapes...)
	return out
}()

// TestPropUniverse: cross product of the embedded universes (thorough: complete; quick: a stride through it).
func TestPropUniverse(t *testing.T) {
	shard, n := evid.Shard()
	total := len(allElems) * len(allAttrs)
	stride := 1
	if evid.Tier() == "quick" {
		stride = 37
	}
	i := shard * stride
	posList := []string{"dq", "sq", "partial", "unquoted"}
	k := 0
	evid.RunEnum(t, "universe", func() (Case, bool) {
		if i >= total {
			return Case{}, false
		}
		e, a := allElems[i/len(allAttrs)], allAttrs[i%len(allAttrs)]
		if stride == 1 {
			// thorough tier: every position for every pair
			pos := posList[k]
			k++
			if k == len(posList) {
				k = 0
				i += n
			}
			return Case{Pos: pos, Elem: e, Attr: a}, true
		}
		i += n * stride
		return Case{Pos: posList[(i/7)%4], Elem: e, Attr: a}, true
	}, check)
	if stride == 1 {
		evid.SetExhaustive("universe")
	}
}

func genName(t *rapid.T, label string, attr bool) string {
	switch rapid.IntRange(0, 4).Draw(t, label+"k") {
	case 0:
		// one edit away from a table entry
		var base []string
		if attr {
			for a := range pol.GlobalAttr {
				base = append(base, a)
			}
			for a := range pol.ElementSpecificAttr {
				base = append(base, a)
			}
		} else {
			for e := range pol.ElementContent {
				base = append(base, e)
			}
		}
		sort.Strings(base)
		n := rapid.SampledFrom(base).Draw(t, label+"base")
		alphabet := "abcxyz019-"
		if attr {
			alphabet += ":_."
		}
		pos := rapid.IntRange(0, len(n)).Draw(t, label+"pos")
		ch := string(alphabet[rapid.IntRange(0, len(alphabet)-1).Draw(t, label+"ch")])
		switch rapid.IntRange(0, 2).Draw(t, label+"op") {
		case 0:
			n = n[:pos] + ch + n[pos:]
		case 1:
			if pos < len(n) {
				n = n[:pos] + ch + n[pos+1:]
			}
		default:
			if pos < len(n) && len(n) > 1 {
				n = n[:pos] + n[pos+1:]
			}
		}
		return fixName(n, attr)
	case 1:
		if attr {
			return rapid.SampledFrom(names.DataShapes).Draw(t, label)
		}
		return rapid.SampledFrom(names.CustomElements).Draw(t, label)
	case 2:
		if attr {
			return rapid.SampledFrom(names.CaseVariants(rapid.SampledFrom(allAttrs).Draw(t, label))).Draw(t, label+"case")
		}
		return rapid.SampledFrom(names.CaseVariants(rapid.SampledFrom(allElems).Draw(t, label))).Draw(t, label+"case")
	case 3:
		if attr {
			return fixName("data-"+rapid.StringMatching(`[a-zA-Z0-9_.:-]{0,6}`).Draw(t, label), attr)
		}
		return fixName(rapid.StringMatching(`[a-zA-Z][a-zA-Z0-9]{0,5}(-[a-z0-9]{1,3})?`).Draw(t, label), attr)
	default:
		if attr {
			return fixName(rapid.StringMatching(`[a-zA-Z_:][a-zA-Z0-9_.:-]{0,8}`).Draw(t, label), attr)
		}
		return fixName(rapid.StringMatching(`[a-zA-Z][a-zA-Z0-9]{0,8}`).Draw(t, label), attr)
	}
}

// fixName keeps generated names inside the shapes that the engine and an HTML tokenizer split identically:
// element names [A-Za-z][A-Za-z0-9]*([-:][A-Za-z0-9]+)*, attribute names without whitespace, quotes, <, >, =, /.
func fixName(n string, attr bool) string {
	var b strings.Builder
	for i := 0; i < len(n); i++ {
		c := n[i]
		al := 'a' <= c && c <= 'z' || 'A' <= c && c <= 'Z'
		dg := '0' <= c && c <= '9'
		if attr {
			if al || dg || strings.IndexByte("-_.:", c) >= 0 {
				b.WriteByte(c)
			}
			continue
		}
		switch {
		case al, dg && b.Len() > 0:
			b.WriteByte(c)
		case (c == '-' || c == ':') && b.Len() > 0 && i+1 < len(n) && (('a' <= n[i+1]|32 && n[i+1]|32 <= 'z') || ('0' <= n[i+1] && n[i+1] <= '9')):
			b.WriteByte(c)
		}
	}
	if b.Len() == 0 {
		return "x"
	}
	return b.String()
}

func gen(t *rapid.T) Case {
	pos := rapid.SampledFrom([]string{"content", "dq", "dq", "sq", "unquoted", "partial", "tagsuffix", "attrname", "attrsuffix", "condelem", "condattr", "condcontent", "condboth", "condattrempty", "condpartial", "rangepartial", "dq-link", "cmtcontent", "suffix", "slashsep", "slashsep2", "wssplit", "namesplit", "tagsplit", "rangename", "tagsuffixsplit", "nestedcontent"}).Draw(t, "pos")
	c := Case{Pos: pos, Elem: genName(t, "elem", false)}
	if pos == "dq-link" {
		c.Pos, c.Elem, c.Attr = "dq", rapid.SampledFrom([]string{"link", "LINK", "Link"}).Draw(t, "link"), rapid.SampledFrom([]string{"href", "HREF", "src", "hreflang", "data-href"}).Draw(t, "linkattr")
		rels := append([]string{"stylesheet", "StyleSheet", "manifest", "import", "x", "alternate", "icon"}, pol.URLLinkRelVals...)
		n := rapid.IntRange(1, 3).Draw(t, "nrel")
		var rs []string
		for i := 0; i < n; i++ {
			rs = append(rs, rapid.SampledFrom(rels).Draw(t, "rel"))
		}
		c.Rel = strings.Join(rs, rapid.SampledFrom([]string{" ", "  ", "\t", "\n"}).Draw(t, "relsep"))
		return c
	}
	if pos != "content" && pos != "tagsuffix" && pos != "attrname" && pos != "condcontent" && pos != "cmtcontent" && pos != "tagsuffixsplit" && pos != "nestedcontent" {
		c.Attr = genName(t, "attr", true)
	}
	if pos == "condelem" || pos == "condcontent" || pos == "condboth" {
		c.Elem2 = genName(t, "elem2", false)
	}
	if pos == "condattr" || pos == "condboth" {
		c.Attr2 = genName(t, "attr2", true)
	}
	if pos == "condpartial" {
		c.Attr2 = rapid.SampledFrom([]string{"x", "java", "/p/", "lt", "a b", "&amp;", "https://h/"}).Draw(t, "static")
	}
	if (pos == "cmtcontent" || pos == "nestedcontent") && (contentClass(c.Elem) == "RCDATA" || contentClass(c.Elem) == "Script" || contentClass(c.Elem) == "StyleSheet") {
		c.Pos = "content"
	}
	if (pos == "content" || pos == "condcontent" || pos == "cmtcontent" || pos == "nestedcontent") && (names.VoidElements[asciiLower(c.Elem)] || names.VoidElements[asciiLower(c.Elem2)]) {
		c.Pos, c.Attr, c.Elem2 = "dq", "title", ""
	}
	return c
}

func TestPropNames(t *testing.T) { evid.RunProp(t, "names", 1, gen, check) }

func TestReplay(t *testing.T) {
	evid.Replay(t, evid.R("table", check), evid.R("universe", check), evid.R("names", check))
}
