// C13: TrustedResourceURL builders confine dynamic parts to where the format puts them.
package c13

import (
	"flag"
	"fmt"
	"sort"
	"strings"
	"testing"

	"github.com/google/safehtml"
	"github.com/google/safehtml/uncheckedconversions"
	"pgregory.net/rapid"

	"verif/evid"
	"verif/gen/strs"
	"verif/oracle/rfc3986"
)

func TestMain(m *testing.M) { evid.Main(m, "C13") }

type strFlag string

func (s strFlag) String() string   { return string(s) }
func (s strFlag) Set(string) error { return nil }

var _ flag.Value = strFlag("")

// mutFlag is a flag.Value with identity: the same pointer is used for every FromFlag call of the process and re-set
// before each call, as a real command-line flag object would be (a result must not depend on earlier values).
type mutFlag struct{ s string }

func (m *mutFlag) String() string     { return m.s }
func (m *mutFlag) Set(v string) error { m.s = v; return nil }

var sharedFlag = &mutFlag{}

// ---------- independent prefix recogniser ----------

func hasPrefixFold(s, p string) bool {
	return len(s) >= len(p) && strings.EqualFold(s[:len(p)], p)
}

// safePrefix reports whether s starts with https://origin/, //origin/, a single-slash path or about:blank#,
// and where the path starts (-1 if there is no hierarchical path, i.e. about:blank#).
func safePrefix(s string) (ok bool, pathStart int) {
	if strings.ContainsAny(s, "\t\n\r") {
		// a URL parser removes every tab, LF and CR before anything else: the prefix is judged on what is left
		// ("/\t/host/" is "//host/"); callers make no further claim about accepted formats of this kind
		ok, _ = safePrefix(stripTNR(s))
		return ok, 0
	}
	rest, off := s, 0
	switch {
	case hasPrefixFold(s, "https://"):
		rest, off = s[8:], 8
	case strings.HasPrefix(s, "//"):
		rest, off = s[2:], 2
	case hasPrefixFold(s, "about:blank#"):
		return true, -1
	case strings.HasPrefix(s, "/"):
		if len(s) >= 2 && s[1] != '/' && s[1] != '\\' {
			return true, 0
		}
		return false, 0
	default:
		return false, 0
	}
	// authority: non-empty, up to the first '/', must not be able to hide another host
	i := strings.IndexByte(rest, '/')
	if i <= 0 {
		return false, 0
	}
	for k := 0; k < i; k++ {
		c := rest[k]
		if c <= 0x20 || c == 0x7f || strings.IndexByte("@\\?#%<>^|`{}\"'", c) >= 0 {
			return false, 0
		}
	}
	return true, off + i
}

func stripTNR(s string) string {
	return strings.NewReplacer("\t", "", "\n", "", "\r", "").Replace(s)
}

// ---------- format ----------

type FormatCase struct {
	Format   evid.BStr            `json:"format"`
	Args     map[string]evid.BStr `json:"args"`
	UseConst bool                 `json:"use_constant_entry_point"`
}

type piece struct {
	text  string
	label string // non-empty: marker
}

func word(c byte) bool {
	return 'a' <= c && c <= 'z' || 'A' <= c && c <= 'Z' || '0' <= c && c <= '9' || c == '_'
}

// scan splits a format into literal pieces and %{label} markers.
func scan(f string) []piece {
	var out []piece
	lit := 0
	for i := 0; i < len(f); {
		if strings.HasPrefix(f[i:], "%{") {
			j := i + 2
			for j < len(f) && word(f[j]) {
				j++
			}
			if j > i+2 && j < len(f) && f[j] == '}' {
				if lit < i {
					out = append(out, piece{text: f[lit:i]})
				}
				out = append(out, piece{label: f[i+2 : j]})
				i = j + 1
				lit = i
				continue
			}
		}
		i++
	}
	if lit < len(f) {
		out = append(out, piece{text: f[lit:]})
	}
	return out
}

type seg struct {
	parts   []string
	fromArg []bool
}

func (s seg) text() string { return strings.Join(s.parts, "") }

// climb finds a marker-bearing path segment that renders as a double-dot segment.
// assembled = it is built from >= 2 non-empty pieces none of which contains a double-dot by itself.
func climb(pieces []piece, enc map[string]string, pathStart int) (found bool, assembled bool, where string) {
	if pathStart < 0 {
		return
	}
	var segs []seg
	cur := seg{}
	pos := 0
	done := false
	for _, p := range pieces {
		if done {
			break
		}
		if p.label != "" {
			cur.parts = append(cur.parts, enc[p.label])
			cur.fromArg = append(cur.fromArg, true)
			continue
		}
		start := 0
		for k := 0; k < len(p.text); k++ {
			abs := pos + k
			c := p.text[k]
			if abs < pathStart {
				start = k + 1
				continue
			}
			if c == '/' || c == '?' || c == '#' {
				if k > start {
					cur.parts = append(cur.parts, p.text[start:k])
					cur.fromArg = append(cur.fromArg, false)
				}
				segs = append(segs, cur)
				cur = seg{}
				start = k + 1
				if c != '/' {
					done = true
					break
				}
			}
		}
		if !done && start < len(p.text) {
			cur.parts = append(cur.parts, p.text[start:])
			cur.fromArg = append(cur.fromArg, false)
		}
		pos += len(p.text)
	}
	if !done {
		segs = append(segs, cur)
	}
	for _, s := range segs {
		hasArg := false
		for _, a := range s.fromArg {
			hasArg = hasArg || a
		}
		if !hasArg {
			continue
		}
		if _, dd := rfc3986.IsDotSegment(s.text()); dd {
			// the author's own literal ".." with empty arguments around it is not a climb caused by arguments
			lit := ""
			for i, p := range s.parts {
				if !s.fromArg[i] {
					lit += p
				}
			}
			if _, litdd := rfc3986.IsDotSegment(lit); litdd {
				continue
			}
			n, self := 0, false
			for _, p := range s.parts {
				if p != "" {
					n++
				}
				if _, d := rfc3986.IsDotSegment(p); d {
					self = true
				}
			}
			return true, n >= 2 && !self, fmt.Sprintf("segment %q from pieces %q", s.text(), s.parts)
		}
	}
	return
}

func checkFormat(c FormatCase) evid.Outcome {
	format := string(c.Format)
	args := map[string]string{}
	for k, v := range c.Args {
		args[k] = string(v)
	}
	var got safehtml.TrustedResourceURL
	var err error
	if c.UseConst {
		got, err = safehtml.VerifTrustedResourceURLFormatFromConstant(format, args)
	} else {
		sharedFlag.Set(format)
		got, err = safehtml.TrustedResourceURLFormatFromFlag(sharedFlag, args)
	}
	pieces := scan(format)
	okPrefix, pathStart := safePrefix(format)
	if err == nil && okPrefix && strings.ContainsAny(format, "\t\n\r") {
		return evid.Outcome{Skip: true, Labels: []string{"accepted-format-with-tab-or-newline"}}
	}
	missing := false
	nt := false
	enc := map[string]string{}
	for _, p := range pieces {
		if p.label == "" {
			continue
		}
		v, ok := args[p.label]
		if !ok {
			missing = true
			continue
		}
		enc[p.label] = rfc3986.EncodeUnreservedOnly(v)
		for i := 0; i < len(v); i++ {
			if !rfc3986.Unreserved(v[i]) || v[i] == '.' {
				nt = true
			}
		}
	}
	o := evid.Outcome{NonTrivial: nt}
	if err != nil {
		o.Labels = append(o.Labels, "failed")
		if okPrefix && !missing {
			o.Labels = append(o.Labels, "safe-format-refused")
		}
		if got.String() != "" {
			// a value handed out together with the error is a TrustedResourceURL of a call that did not succeed
			return evid.Viol("format %q with args %q failed (%v) and still returned the non-zero TrustedResourceURL %q", format, args, err, got.String())
		}
		return o
	}
	o.Labels = append(o.Labels, "succeeded")
	res := got.String()
	if !okPrefix {
		return evid.Viol("format %q does not start with https://origin/, //origin/, a single-slash path or about:blank# but the call succeeded with %q", format, res)
	}
	if missing {
		return evid.Viol("format %q with args %q: a label has no argument but the call succeeded with %q", format, args, res)
	}
	var want strings.Builder
	for _, p := range pieces {
		if p.label == "" {
			want.WriteString(p.text)
		} else {
			want.WriteString(enc[p.label])
		}
	}
	if rfc3986.UpperHex(res) != rfc3986.UpperHex(want.String()) {
		return evid.Viol("format %q args %q: result %q, want every marker replaced by its argument percent-encoded down to unreserved characters: %q", format, args, res, want.String())
	}
	// structure relative to the benign rendering
	benign := map[string]string{}
	i := 0
	var ben strings.Builder
	for _, p := range pieces {
		if p.label == "" {
			ben.WriteString(p.text)
			continue
		}
		if _, ok := benign[p.label]; !ok {
			benign[p.label] = fmt.Sprintf("zq%dqz", i)
			i++
		}
		ben.WriteString(benign[p.label])
	}
	rp, bp := rfc3986.Split(res), rfc3986.Split(ben.String())
	if !strings.EqualFold(rp.Scheme, bp.Scheme) || rp.Authority != bp.Authority || rp.HasAuthority != bp.HasAuthority ||
		strings.Count(rp.Path, "/") != strings.Count(bp.Path, "/") || rp.HasQuery != bp.HasQuery || rp.HasFragment != bp.HasFragment ||
		strings.Count(res, "?") != strings.Count(ben.String(), "?") || strings.Count(res, "#") != strings.Count(ben.String(), "#") ||
		strings.Count(res, "\\") != strings.Count(ben.String(), "\\") {
		return evid.Viol("format %q args %q: result %q differs in scheme/authority/segment count/query/fragment structure from the benign rendering %q", format, args, res, ben.String())
	}
	if found, assembled, where := climb(pieces, enc, pathStart); found {
		v := evid.Viol("format %q args %q: result %q climbs above the directory the format spells out: %s", format, args, res, where)
		if assembled {
			v.Finding = "K-dots"
		}
		return v
	}
	return o
}

// ---------- append ----------

type AppendCase struct {
	Base   evid.BStr `json:"base"`
	Suffix evid.BStr `json:"suffix"`
}

func checkAppend(c AppendCase) evid.Outcome {
	base, suf := string(c.Base), string(c.Suffix)
	got, err := safehtml.TrustedResourceURLAppend(uncheckedconversions.TrustedResourceURLFromStringKnownToSatisfyTypeContract(base), suf)
	okPrefix, pathStart := safePrefix(base)
	o := evid.Outcome{NonTrivial: strings.ContainsAny(suf, "/\\?#.%:@&=")}
	if err != nil {
		o.Labels = append(o.Labels, "failed")
		if okPrefix {
			o.Labels = append(o.Labels, "safe-base-refused")
		}
		if got.String() != "" {
			return evid.Viol("appending %q to %q failed (%v) and still returned the non-zero TrustedResourceURL %q", suf, base, err, got.String())
		}
		return o
	}
	o.Labels = append(o.Labels, "succeeded")
	res := got.String()
	if !okPrefix {
		return evid.Viol("base %q has no safe prefix but Append succeeded with %q", base, res)
	}
	if strings.ContainsAny(base, "\t\n\r") {
		return evid.Outcome{Skip: true, Labels: []string{"accepted-base-with-tab-or-newline"}}
	}
	enc := rfc3986.EncodeUnreservedOnly(suf)
	if rfc3986.UpperHex(res) != rfc3986.UpperHex(base+enc) {
		return evid.Viol("Append(%q, %q) = %q, want base + percent-encoded suffix %q", base, suf, res, base+enc)
	}
	pieces := []piece{{text: base}, {label: "s"}}
	if found, assembled, where := climb(pieces, map[string]string{"s": enc}, pathStart); found {
		v := evid.Viol("Append(%q, %q) = %q climbs above the directory of the base: %s", base, suf, res, where)
		if assembled {
			v.Finding = "K-dots"
		}
		return v
	}
	return o
}

// ---------- with params ----------

type ParamsCase struct {
	Base   evid.BStr   `json:"base"`
	Keys   []evid.BStr `json:"keys"`
	Values []evid.BStr `json:"values"`
}

func checkParams(c ParamsCase) evid.Outcome {
	base := string(c.Base)
	t := uncheckedconversions.TrustedResourceURLFromStringKnownToSatisfyTypeContract(base)
	want := map[string]string{}
	nt := false
	build := func(rot int) map[string]string {
		m := map[string]string{}
		n := len(c.Keys)
		for i := 0; i < n; i++ {
			j := (i + rot) % n
			if j < len(c.Values) {
				m[string(c.Keys[j])] = string(c.Values[j])
			}
		}
		return m
	}
	full := build(0)
	for k, v := range full {
		if k != "" && v != "" {
			want[k] = v
			if strings.ContainsAny(k+v, "&=#?/%+ ") {
				nt = true
			}
		} else {
			nt = true
		}
	}
	res := safehtml.TrustedResourceURLWithParams(t, full).String()
	for rot := 1; rot < 10 && len(c.Keys) > 1; rot++ {
		if again := safehtml.TrustedResourceURLWithParams(t, build(rot)).String(); again != res {
			return evid.Viol("WithParams(%q, %q) depends on map construction/iteration order: %q vs %q", base, full, res, again)
		}
	}
	o := evid.Outcome{NonTrivial: nt}
	bp, rp := rfc3986.Split(base), rfc3986.Split(res)
	if bp.Scheme != rp.Scheme || bp.HasScheme != rp.HasScheme || bp.Authority != rp.Authority || bp.HasAuthority != rp.HasAuthority || bp.Path != rp.Path {
		return evid.Viol("WithParams(%q, %q) = %q changed scheme, authority or path", base, full, res)
	}
	if bp.Fragment != rp.Fragment || bp.HasFragment != rp.HasFragment {
		return evid.Viol("WithParams(%q, %q) = %q changed the fragment", base, full, res)
	}
	if len(want) == 0 {
		if res != base {
			return evid.Viol("WithParams(%q, %q) = %q: no non-empty pair, result must equal the base", base, full, res)
		}
		o.Labels = append(o.Labels, "nothing-added")
		return o
	}
	if !rp.HasQuery || !strings.HasPrefix(rp.Query, bp.Query) {
		return evid.Viol("WithParams(%q, %q) = %q: existing query text not preserved", base, full, res)
	}
	added := rp.Query[len(bp.Query):]
	if bp.HasQuery && bp.Query != "" {
		if !strings.HasPrefix(added, "&") {
			return evid.Viol("WithParams(%q, %q) = %q: new parameters not separated from the existing query by '&'", base, full, res)
		}
		added = added[1:]
	}
	gotPairs := map[string]string{}
	var order []string
	for _, kv := range strings.Split(added, "&") {
		eq := strings.IndexByte(kv, '=')
		if eq < 0 {
			return evid.Viol("WithParams(%q, %q) = %q: appended text %q is not key=value", base, full, res, kv)
		}
		k, v := kv[:eq], kv[eq+1:]
		for _, part := range []string{k, v} {
			for i := 0; i < len(part); i++ {
				if !rfc3986.Unreserved(part[i]) && !rfc3986.IsEscape(part, i) && !(part[i] != '%' && i >= 1 && rfc3986.IsEscape(part, i-1)) && !(part[i] != '%' && i >= 2 && rfc3986.IsEscape(part, i-2)) {
					return evid.Viol("WithParams(%q, %q) = %q: appended %q is not percent-encoded down to unreserved characters", base, full, res, kv)
				}
			}
		}
		if _, dup := gotPairs[rfc3986.Decode(k)]; dup {
			return evid.Viol("WithParams(%q, %q) = %q: duplicate key", base, full, res)
		}
		gotPairs[rfc3986.Decode(k)] = rfc3986.Decode(v)
		order = append(order, kv)
	}
	if len(gotPairs) != len(want) {
		return evid.Viol("WithParams(%q, %q) = %q: appended pairs %q, want exactly the non-empty pairs %q", base, full, res, gotPairs, want)
	}
	for k, v := range want {
		if gotPairs[k] != v {
			return evid.Viol("WithParams(%q, %q) = %q: appended pairs %q, want exactly the non-empty pairs %q", base, full, res, gotPairs, want)
		}
	}
	if !sort.StringsAreSorted(order) {
		o.Labels = append(o.Labels, "unsorted-but-deterministic")
	}
	o.Labels = append(o.Labels, "added")
	return o
}

// ---------- generators ----------

var safePrefixes = []string{"https://host/", "HTTPS://Host.Example:8443/", "https://[::1]/", "//host/", "//cdn.example.com/", "/x", "/path/", "/a", "about:blank#", "ABOUT:BLANK#", "https://a-b.c/"}
var unsafePrefixes = []string{"/\t/", "/\n/host/", "/\r\\host/", "/\t\t/", "h\tttps://host/", "https:/\t/host/", "http://host/", "https://host", "https://user@host/", "https://host\\/", "https:///", "https://", "//", "/", "/\\evil/", "//\\evil/", "\\\\evil/", "/\\", "///evil/", "relative/", "x", "", "javascript:alert(1)//", "data:text/javascript,", "ftp://host/", "https:/host/", "https:host/", " https://host/", "https://host?/", "https://host#/", "https://ho%73t/", "https://host /", "about:blank", "about:srcdoc#", "https://ho@st/", "//ho\tst/", "https://évil/", "blob:https://host/"}
var litPieces = []string{"\t", "\n", "\r", "a", "b", "x.js", "/", "/", ".", "..", "./", "../", "/.", "/..", "%2e", "%2E", "%2e%2e", "?", "#", "=", "&", "q=", "-", "_", "~", ";", ":", "@", "%", "%25", "\\", "//"}
var markers = []string{"%{a}", "%{b}", "%{c}", "%{d}", "%{a}", "%{b}", "%{A_1}", "%{9}"}
var badMarkers = []string{"%{", "%{}", "%{a-b}", "%{a", "%%{a}", "%{a}}", "%{ a}", "%{é}", "%{a b}", "{a}", "%a", "%{%{a}}"}
var argVals = []string{".", "..", "...", "/", "\\", "?", "#", "%", "%2e", "%2E%2e", ".%2e", "%2f", "a", "", "../", "/..", "x/y", "a/../b", "%00", "@evil", ":", "http://evil/", "//evil", " ", "\n", "é", "\xff", "a.b", "-", "_", "~", "+", "&x=1", "%252e"}

func genFormat(t *rapid.T) FormatCase {
	var b strings.Builder
	if rapid.IntRange(0, 4).Draw(t, "safe") > 0 {
		b.WriteString(rapid.SampledFrom(safePrefixes).Draw(t, "prefix"))
	} else if rapid.Bool().Draw(t, "dictunsafe") {
		b.WriteString(rapid.SampledFrom(unsafePrefixes).Draw(t, "prefix"))
	} else {
		b.WriteString(strs.Mutate(t, rapid.SampledFrom(safePrefixes).Draw(t, "prefix"), 2, unsafePrefixes))
	}
	n := rapid.IntRange(0, 7).Draw(t, "npieces")
	for i := 0; i < n; i++ {
		switch rapid.IntRange(0, 9).Draw(t, "pk") {
		case 0, 1, 2, 3:
			b.WriteString(rapid.SampledFrom(markers).Draw(t, "marker"))
		case 4:
			b.WriteString(rapid.SampledFrom(badMarkers).Draw(t, "badmarker"))
		default:
			b.WriteString(rapid.SampledFrom(litPieces).Draw(t, "lit"))
		}
	}
	c := FormatCase{Format: evid.BStr(b.String()), Args: map[string]evid.BStr{}, UseConst: rapid.Bool().Draw(t, "const")}
	for _, l := range []string{"a", "b", "c", "d", "A_1", "9", "unused"} {
		if rapid.IntRange(0, 9).Draw(t, "have") == 0 {
			continue
		}
		var v string
		if rapid.IntRange(0, 3).Draw(t, "argkind") == 0 {
			v = strs.Hostile(3, argVals).Draw(t, "arg")
		} else {
			v = rapid.SampledFrom(argVals).Draw(t, "arg")
		}
		c.Args[l] = evid.BStr(v)
	}
	return c
}

func genBase(t *rapid.T) string {
	var b strings.Builder
	if rapid.IntRange(0, 3).Draw(t, "safe") > 0 {
		b.WriteString(rapid.SampledFrom(safePrefixes).Draw(t, "prefix"))
	} else {
		b.WriteString(rapid.SampledFrom(unsafePrefixes).Draw(t, "prefix"))
	}
	n := rapid.IntRange(0, 5).Draw(t, "npieces")
	for i := 0; i < n; i++ {
		b.WriteString(rapid.SampledFrom(litPieces).Draw(t, "lit"))
	}
	return b.String()
}

func genAppend(t *rapid.T) AppendCase {
	c := AppendCase{Base: evid.BStr(genBase(t))}
	if rapid.Bool().Draw(t, "dict") {
		c.Suffix = evid.BStr(rapid.SampledFrom(argVals).Draw(t, "suffix"))
	} else {
		c.Suffix = evid.BStr(strs.Hostile(4, argVals).Draw(t, "suffix"))
	}
	return c
}

func genParams(t *rapid.T) ParamsCase {
	base := genBase(t)
	base += rapid.SampledFrom([]string{"", "", "?", "?a=b", "?a=b&", "?a", "#f", "?a=b#f", "?#", "#?x", "#f#g", "?a=b?c"}).Draw(t, "tail")
	c := ParamsCase{Base: evid.BStr(base)}
	n := rapid.IntRange(0, 4).Draw(t, "n")
	seen := map[string]bool{}
	for i := 0; i < n; i++ {
		k := rapid.OneOf(rapid.SampledFrom([]string{"", "k", "a", "q", "k&x", "a=b", "é", "#", "?", "a b", "+", "%41"}), strs.Hostile(2, nil)).Draw(t, "key")
		if seen[k] {
			continue
		}
		seen[k] = true
		c.Keys = append(c.Keys, evid.BStr(k))
		c.Values = append(c.Values, evid.BStr(rapid.OneOf(rapid.SampledFrom([]string{"", "v", "1", "a&b=c", "#frag", "?", "x y", "%26", "é", "/../"}), strs.Hostile(3, nil)).Draw(t, "val")))
	}
	return c
}

func TestPropCore(t *testing.T) {
	for _, c := range []FormatCase{
		{Format: "https://host/path/%{a}/x.js?q=%{b}", Args: map[string]evid.BStr{"a": "seg", "b": "v"}},
		{Format: "//host/%{a}", Args: map[string]evid.BStr{"a": "x/y"}, UseConst: true},
		{Format: "/x/%{a}#%{b}", Args: map[string]evid.BStr{"a": "1", "b": "2"}},
		{Format: "about:blank#%{a}", Args: map[string]evid.BStr{"a": "1"}},
	} {
		o := checkFormat(c)
		if o.Violation != "" || o.Labels[0] != "succeeded" {
			t.Fatalf("core %+v: %+v", c, o)
		}
	}
	if o := checkAppend(AppendCase{"https://host/a/", "b c"}); o.Violation != "" || o.Labels[0] != "succeeded" {
		t.Fatalf("core append: %+v", o)
	}
}

func TestPropFormat(t *testing.T) { evid.RunProp(t, "format", 1, genFormat, checkFormat) }
func TestPropAppend(t *testing.T) { evid.RunProp(t, "append", 0.3, genAppend, checkAppend) }
func TestPropParams(t *testing.T) { evid.RunProp(t, "params", 0.3, genParams, checkParams) }

func FuzzFormat(f *testing.F) {
	f.Add("https://host/%{a}/%{b}", ".", ".", "/x")
	f.Add("/x.%{a}/", ".", "", "..")
	f.Fuzz(func(t *testing.T, format, a, b, suffix string) {
		c := FormatCase{Format: evid.BStr(format), Args: map[string]evid.BStr{"a": evid.BStr(a), "b": evid.BStr(b)}}
		if o := checkFormat(c); o.Violation != "" && !(o.Finding != "" && evid.IsKnown(o.Finding)) {
			evid.Record("fuzzformat", c, o)
			t.Fatalf("%s replay=%s", o.Violation, evid.SaveFailure("fuzzformat"))
		}
		ac := AppendCase{evid.BStr(format), evid.BStr(suffix)}
		if o := checkAppend(ac); o.Violation != "" && !(o.Finding != "" && evid.IsKnown(o.Finding)) {
			evid.Record("fuzzappend", ac, o)
			t.Fatalf("%s replay=%s", o.Violation, evid.SaveFailure("fuzzappend"))
		}
	})
}

func TestReplay(t *testing.T) {
	evid.Replay(t, evid.R("format", checkFormat), evid.R("fuzzformat", checkFormat), evid.R("append", checkAppend), evid.R("fuzzappend", checkAppend), evid.R("params", checkParams))
}
