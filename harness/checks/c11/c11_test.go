// C11: URLSanitized returns its input or the innocuous URL, and never a javascript: URL.
package c11

import (
	"html"
	"strings"
	"testing"

	"github.com/google/safehtml"
	"pgregory.net/rapid"

	"verif/evid"
	"verif/gen/strs"
	"verif/oracle/whaturl"
)

func TestMain(m *testing.M) { evid.Main(m, "C11") }

type Case struct {
	S evid.BStr `json:"s"`
}

const innocuous = "about:invalid#zGoSafez"

var dict = []string{"javascript:", "JAVASCRIPT:", "JavaScript:alert(1)", "javascript", "java", "script:", "jav", "ascript:", ":", "&colon;", "&#58;", "&#x3a;", "&#x3A", "&Tab;", "&NewLine;", "&#9;", "&#10;", "&#13;", "&#106;", "&#x6a;", "&#x4A", "&jscr;", "http:", "https://", "mailto:", "data:", "vbscript:", "about:invalid#zGoSafez", "//", "/", "?", "#", "a:b", "javascript&colon;", "\tjavascript:", "java\tscript:", "java\nscript:", "javascript\r:", " javascript:", "\x00javascript:", "\x1fjavascript:", "livescript:", "xjavascript:", "javascriptx:", "javascript;", "javascript："}

// independent, byte-level recogniser of the two "must be returned unchanged" shapes
func schemeChar(c byte) bool {
	return 'a' <= c && c <= 'z' || 'A' <= c && c <= 'Z' || '0' <= c && c <= '9' || c == '+' || c == '.' || c == '-'
}

func asciiLower(s string) string {
	b := []byte(s)
	for i, c := range b {
		if 'A' <= c && c <= 'Z' {
			b[i] = c + 32
		}
	}
	return string(b)
}

func mustPass(s string) (bool, string) {
	i := 0
	for i < len(s) && schemeChar(s[i]) {
		i++
	}
	if i > 0 && i < len(s) && s[i] == ':' && asciiLower(s[:i]) != "javascript" {
		return true, "explicit-safe-scheme"
	}
	for j := 0; j < len(s); j++ {
		switch s[j] {
		case '/', '?', '#':
			return true, "no-colon-amp-before-delim"
		case ':', '&':
			return false, ""
		}
	}
	return true, "no-colon-amp-at-all"
}

func jsPrefixish(s string) bool {
	l := asciiLower(s)
	for _, w := range []string{"java", "avas", "vasc", "ascr", "scri", "crip", "ript"} {
		if strings.Contains(l, w) {
			return true
		}
	}
	return false
}

func check(c Case) evid.Outcome {
	s := string(c.S)
	got := safehtml.URLSanitized(s).String()
	o := evid.Outcome{Key: s, NonTrivial: strings.ContainsAny(s, ":&") || jsPrefixish(s)}
	if got != s && got != innocuous {
		return evid.Viol("URLSanitized(%q) = %q: neither the input nor the innocuous URL", s, got)
	}
	if got == s {
		if whaturl.IsJavascript(s) {
			return evid.Viol("URLSanitized(%q) returned its input, which a WHATWG URL parser reads as a javascript: URL", s)
		}
		if u := html.UnescapeString(s); whaturl.IsJavascript(u) {
			return evid.Viol("URLSanitized(%q) returned its input, which after character-reference decoding (%q) is a javascript: URL", s, u)
		}
		o.Labels = append(o.Labels, "kept")
	} else {
		o.Labels = append(o.Labels, "replaced")
	}
	if must, why := mustPass(s); must {
		if got != s {
			return evid.Viol("URLSanitized(%q) = %q but the input has the documented safe shape (%s) and must be returned unchanged", s, got, why)
		}
		o.Labels = append(o.Labels, why)
	}
	if whaturl.IsJavascript(s) || whaturl.IsJavascript(html.UnescapeString(s)) {
		o.Labels = append(o.Labels, "is-javascript-url")
	}
	return o
}

func gen(t *rapid.T) Case {
	switch rapid.IntRange(0, 6).Draw(t, "kind") {
	case 6:
		// long runs before / inside / after a javascript: spelling (magic-length defects)
		w := strs.CaseVariant(t, "javascript:") + "alert(1)"
		cut := rapid.IntRange(0, len("javascript:")).Draw(t, "cut")
		pre := rapid.SampledFrom([]string{"", "", " ", "\x00"}).Draw(t, "pre")
		return Case{evid.BStr(pre + w[:cut] + strs.Pad().Draw(t, "pad") + w[cut:])}
	case 0, 1:
		return Case{evid.BStr(strs.Hostile(8, dict).Draw(t, "s"))}
	case 2, 3:
		// mutated javascript: URL in a random case folding
		seed := strs.CaseVariant(t, "javascript:") + rapid.SampledFrom([]string{"", "alert(1)", "//x", "&"}).Draw(t, "tail")
		pre := rapid.SampledFrom([]string{"", "", " ", "\t", "\n", "\x00", "\x01", "\x1f", "\x20\x0c", "\x7f", "x", "&#1;", "&Tab;"}).Draw(t, "pre")
		return Case{evid.BStr(strs.Mutate(t, pre+seed, 3, dict))}
	case 4:
		// strings over scheme characters and delimiters
		return Case{evid.BStr(strs.From(10, []string{"a", "J", "z", "0", "+", ".", "-", ":", "/", "?", "#", "&", "javascript", "JAVASCRIPT"}).Draw(t, "s"))}
	default:
		// entity-encoded spellings of javascript:
		w := "javascript:"
		var b strings.Builder
		for i := 0; i < len(w); i++ {
			switch rapid.IntRange(0, 5).Draw(t, "enc") {
			case 0:
				b.WriteString("&#" + itoa(int(w[i])) + ";")
			case 1:
				b.WriteString("&#x" + hex(int(w[i])) + ";")
			case 2:
				b.WriteString("&#" + itoa(int(w[i])))
			default:
				b.WriteByte(w[i])
			}
		}
		return Case{evid.BStr(strs.Mutate(t, b.String(), 1, dict))}
	}
}

func itoa(n int) string {
	if n == 0 {
		return "0"
	}
	s := ""
	for n > 0 {
		s = string(rune('0'+n%10)) + s
		n /= 10
	}
	return s
}

func hex(n int) string {
	const d = "0123456789abcdef"
	return string([]byte{d[n>>4], d[n&15]})
}

func TestPropSanitize(t *testing.T) { evid.RunProp(t, "sanitize", 1, gen, check) }

// FuzzSanitize is the native fuzz target (thorough tier).
func FuzzSanitize(f *testing.F) {
	for _, s := range dict {
		f.Add(s)
	}
	f.Add("javascript:alert(1)")
	f.Add("JaVa\tScRiPt:alert(1)")
	f.Add("&#106;avascript:x")
	f.Fuzz(func(t *testing.T, s string) {
		c := Case{evid.BStr(s)}
		if o := check(c); o.Violation != "" {
			evid.Record("fuzz", c, o)
			t.Fatalf("%s replay=%s", o.Violation, evid.SaveFailure("fuzz"))
		}
	})
}

func TestReplay(t *testing.T) {
	evid.Replay(t, evid.R("sanitize", check), evid.R("fuzz", check))
}
