// C18: Identifier constructors admit only [A-Za-z][-_A-Za-z0-9]*, keep the constant prefix.
package c18

import (
	"testing"

	"github.com/google/safehtml"
	"pgregory.net/rapid"

	"verif/evid"
	"verif/gen/strs"
)

func TestMain(m *testing.M) { evid.Main(m, "C18") }

type Case struct {
	UsePrefix bool      `json:"use_prefix"`
	Prefix    evid.BStr `json:"prefix"`
	Value     evid.BStr `json:"value"`
}

func alpha(c byte) bool { return 'a' <= c && c <= 'z' || 'A' <= c && c <= 'Z' }
func tail(c byte) bool  { return alpha(c) || '0' <= c && c <= '9' || c == '-' || c == '_' }

func allTail(s string) bool {
	for i := 0; i < len(s); i++ {
		if !tail(s[i]) {
			return false
		}
	}
	return true
}

// ident is the byte-level recogniser of [A-Za-z][-_A-Za-z0-9]* (no regexp).
func ident(s string) bool { return len(s) > 0 && alpha(s[0]) && allTail(s[1:]) }

func call(c Case) (res string, panicked bool) {
	defer func() {
		if recover() != nil {
			panicked = true
		}
	}()
	if c.UsePrefix {
		return safehtml.VerifIdentifierFromConstantPrefix(string(c.Prefix), string(c.Value)).String(), false
	}
	return safehtml.VerifIdentifierFromConstant(string(c.Value)).String(), false
}

func check(c Case) evid.Outcome {
	res, panicked := call(c)
	o := evid.Outcome{NonTrivial: !allTail(string(c.Value)) || (c.UsePrefix && !ident(string(c.Prefix)))}
	if panicked {
		o.Labels = append(o.Labels, "panicked")
		// converse only for the plainly valid core (vacuity guard)
		if c.UsePrefix && ident(string(c.Prefix)) && allTail(string(c.Value)) || !c.UsePrefix && ident(string(c.Value)) {
			o.Labels = append(o.Labels, "valid-input-refused")
		}
		return o
	}
	o.Labels = append(o.Labels, "accepted")
	if !ident(res) {
		return evid.Viol("constructor accepted %+v and returned %q, which is not [A-Za-z][-_A-Za-z0-9]*", c, res)
	}
	if c.UsePrefix {
		if want := string(c.Prefix) + "-" + string(c.Value); res != want {
			return evid.Viol("IdentifierFromConstantPrefix(%q, %q) = %q, want prefix-hyphen-value %q", c.Prefix, c.Value, res, want)
		}
		if !ident(string(c.Prefix)) || !allTail(string(c.Value)) {
			return evid.Viol("IdentifierFromConstantPrefix(%q, %q) accepted an invalid prefix or value", c.Prefix, c.Value)
		}
	} else if res != string(c.Value) {
		return evid.Viol("IdentifierFromConstant(%q) = %q", c.Value, res)
	}
	return o
}

var dict = []string{"a", "Z", "id", "my-id", "a_b", "x1", "\n", "a\n", "\r", "é", "١", "０", "Ａ", "́", " ", "\x00", "-", "_", "--", "a-", "1", "1a", "my-prefix"}

func identish(t *rapid.T, label string) string {
	switch rapid.IntRange(0, 3).Draw(t, label+"kind") {
	case 0:
		return strs.Hostile(4, dict).Draw(t, label)
	case 1:
		// valid core then one mutation
		base := rapid.SampledFrom([]string{"a", "id", "my-id", "a_b-c9", "X", "item42"}).Draw(t, label+"base")
		return strs.Mutate(t, base, 1, dict)
	default:
		return strs.From(5, []string{"a", "b", "Z", "0", "9", "-", "_"}, dict).Draw(t, label)
	}
}

func gen(t *rapid.T) Case {
	c := Case{UsePrefix: rapid.Bool().Draw(t, "use_prefix")}
	if c.UsePrefix {
		if rapid.IntRange(0, 3).Draw(t, "goodprefix") > 0 {
			c.Prefix = evid.BStr(rapid.SampledFrom([]string{"p", "my-prefix", "a_b", "X9"}).Draw(t, "prefix"))
		} else {
			c.Prefix = evid.BStr(identish(t, "prefix"))
		}
	}
	c.Value = evid.BStr(identish(t, "value"))
	return c
}

func TestPropIdentifier(t *testing.T) { evid.RunProp(t, "identifier", 1, gen, check) }

// TestPropCore: plainly valid inputs are accepted (vacuity guard).
func TestPropCore(t *testing.T) {
	for _, c := range []Case{{false, "", "a"}, {false, "", "my-id_9"}, {true, "p", "x"}, {true, "my-prefix", "9"}, {true, "p", ""}} {
		if _, panicked := call(c); panicked {
			t.Fatalf("core input %+v refused", c)
		}
	}
}

// TestPropShort enumerates every string of length <= 2 over a 40-byte alphabet for value, for both constructors.
func TestPropShort(t *testing.T) {
	alpha := []byte("azAZ09-_ \n\r\t\x00\x7f.:/<>\"'&;=+*$@!~^\\|\xc3\xa9\xff\x80\xe2\x0b\x0c")
	shard, n := evid.Shard()
	var all []string
	all = append(all, "")
	for _, a := range alpha {
		all = append(all, string([]byte{a}))
		for _, b := range alpha {
			all = append(all, string([]byte{a, b}))
		}
	}
	i := shard
	pre := 0
	next := func() (Case, bool) {
		if i >= len(all) {
			return Case{}, false
		}
		v := all[i]
		var c Case
		switch pre {
		case 0:
			c = Case{false, "", evid.BStr(v)}
		case 1:
			c = Case{true, "p", evid.BStr(v)}
		case 2:
			c = Case{true, evid.BStr(v), "x"}
		}
		pre++
		if pre == 3 {
			pre = 0
			i += n
		}
		return c, true
	}
	evid.RunEnum(t, "short", next, check)
	evid.SetExhaustive("short")
}

func FuzzIdentifier(f *testing.F) {
	f.Add(true, "p", "x\n")
	f.Add(false, "", "a\n")
	f.Add(true, "p\n", "x")
	f.Fuzz(func(t *testing.T, usePrefix bool, p, v string) {
		c := Case{usePrefix, evid.BStr(p), evid.BStr(v)}
		if o := check(c); o.Violation != "" {
			evid.Record("fuzz", c, o)
			t.Fatalf("%s replay=%s", o.Violation, evid.SaveFailure("fuzz"))
		}
	})
}

func TestReplay(t *testing.T) {
	evid.Replay(t, evid.R("identifier", check), evid.R("short", check), evid.R("fuzz", check))
}
