package tx

import (
	"reflect"
)

// ptrTo returns a pointer to a copy of v with its concrete type preserved (*T, **T, ...).
func ptrTo(v interface{}) interface{} {
	rv := reflect.ValueOf(v)
	p := reflect.New(rv.Type())
	p.Elem().Set(rv)
	return p.Interface()
}
