// Package tx holds small helpers for driving safehtml/template from the checks.
package tx

import (
	"bytes"
	"fmt"

	"github.com/google/safehtml/template"
	"github.com/google/safehtml/uncheckedconversions"
)

// Parse parses text as the template "main" of a fresh set (through the verif hook for run-time strings).
func Parse(text string) (*template.Template, error) {
	return template.New("main").VerifParse(text)
}

// ParseFuncs is Parse with a function map registered first.
func ParseFuncs(text string, funcs template.FuncMap) (*template.Template, error) {
	return template.New("main").Funcs(funcs).VerifParse(text)
}

// Exec executes t with data into a string.
func Exec(t *template.Template, data interface{}) (string, error) {
	var b bytes.Buffer
	err := t.Execute(&b, data)
	return b.String(), err
}

// Run parses and executes; perr is the parse error, xerr the execution error (analysis or run time).
func Run(text string, data interface{}) (out string, perr, xerr error) {
	t, perr := Parse(text)
	if perr != nil {
		return "", perr, nil
	}
	out, xerr = Exec(t, data)
	return out, nil, xerr
}

// TypeNames lists the seven safe types.
var TypeNames = []string{"HTML", "Script", "Style", "StyleSheet", "URL", "TrustedResourceURL", "Identifier"}

// Typed builds a safe-type value of the named type with arbitrary contents.
func Typed(kind, s string) interface{} {
	switch kind {
	case "HTML":
		return uncheckedconversions.HTMLFromStringKnownToSatisfyTypeContract(s)
	case "Script":
		return uncheckedconversions.ScriptFromStringKnownToSatisfyTypeContract(s)
	case "Style":
		return uncheckedconversions.StyleFromStringKnownToSatisfyTypeContract(s)
	case "StyleSheet":
		return uncheckedconversions.StyleSheetFromStringKnownToSatisfyTypeContract(s)
	case "URL":
		return uncheckedconversions.URLFromStringKnownToSatisfyTypeContract(s)
	case "TrustedResourceURL":
		return uncheckedconversions.TrustedResourceURLFromStringKnownToSatisfyTypeContract(s)
	case "Identifier":
		return uncheckedconversions.IdentifierFromStringKnownToSatisfyTypeContract(s)
	case "", "string":
		return s
	}
	panic(fmt.Sprintf("tx.Typed: unknown kind %q", kind))
}

// Ptr returns a pointer (depth 1 or 2) to a typed value, for the pointer variants of C03.
func Ptr(v interface{}, depth int) interface{} {
	for i := 0; i < depth; i++ {
		switch x := v.(type) {
		case string:
			v = &x
		default:
			v = ptrTo(x)
		}
	}
	return v
}
