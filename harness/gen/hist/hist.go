// Package hist generates template sets and API-call histories over them, runs
// them against safehtml/template, and provides the reference model: the ordered
// definition operations of each lineage (to rebuild a fresh identical set) and
// the expected outcome of a call as "the same single call on a fresh set".
package hist

import (
	"bytes"
	"errors"
	"fmt"
	"os"
	"path/filepath"
	"sort"
	"strings"
	"sync"
	texttemplate "text/template"
	"time"

	"github.com/google/safehtml"
	"github.com/google/safehtml/template"
	"pgregory.net/rapid"

	"verif/evid"
	"verif/tx"
)

// Op is one API call of a history.
type Op struct {
	Kind   string    `json:"kind"`             // parse | parsett | new | exec | exectmpl | exechtml | exectmplhtml | lookup | templates | defined | name | clone | parsefiles | parseglob | parsefs
	Set    int       `json:"set"`              // index of the set the call is made on (0 = the original)
	Via    string    `json:"via,omitempty"`    // name of the handle used ("" = root handle of that set)
	Target string    `json:"target,omitempty"` // template name (exectmpl, lookup, new)
	Text   string    `json:"text,omitempty"`   // template text (parse*); for file-based entry points the content of the file named Target
	Data   *DataSpec `json:"data,omitempty"`
}

// DataSpec is the data of an execution.
type DataSpec struct {
	V    evid.BStr `json:"v"`
	U    evid.BStr `json:"u"`
	C    bool      `json:"c"`
	L    int       `json:"l"`
	Deep int       `json:"deep"` // recursion depth available through .Next
	Typ  string    `json:"typ,omitempty"`
}

func (d *DataSpec) Value() interface{} {
	if d == nil {
		return nil
	}
	var build func(depth int) map[string]interface{}
	build = func(depth int) map[string]interface{} {
		m := map[string]interface{}{"V": string(d.V), "U": string(d.U), "C": d.C, "L": make([]int, d.L), "T": tx.Typed("Script", "if (a<b) t(\"x&y\");"), "I": tx.Typed("Identifier", "id1"), "SS": tx.Typed("StyleSheet", "p>a{content:\"<&\"}")}
		// (the typed values hold characters that HTML escaping changes: whether a context escaped them is visible)
		if d.Typ != "" {
			m["V"] = tx.Typed(d.Typ, string(d.V))
		}
		if depth > 0 {
			m["Next"] = build(depth - 1)
		} else {
			m["Next"] = nil
		}
		return m
	}
	return build(d.Deep)
}

func (d *DataSpec) Key() string {
	if d == nil {
		return "nil"
	}
	return fmt.Sprintf("%q|%q|%v|%d|%d|%s", d.V, d.U, d.C, d.L, d.Deep, d.Typ)
}

// History is a generated case.
type History struct {
	RootName string   `json:"root"`
	CSP      bool     `json:"csp,omitempty"`
	Ops      []Op     `json:"ops"`
	Flags    []string `json:"flags,omitempty"`
	// Bad: members of the original set built to fail analysis (name -> category; "calls:<cat>" for callers of one);
	// RuntimeBad: members that pass analysis but fail at run time after partial output.
	Bad        map[string]string `json:"bad,omitempty"`
	RuntimeBad []string          `json:"runtime_bad,omitempty"`
}

// Result of one step.
type Result struct {
	Out      string // bytes written (Execute*) or HTML string (Execute*ToHTML)
	Err      string // error text ("" = nil)
	Class    string // "" | analysis | exec | other
	Panic    string // recovered panic, with stack
	Hang     bool
	Nil      bool     // Lookup / handle resolution returned nil (call skipped)
	ZeroHTML bool     // ToHTML variants: returned HTML is the zero value
	Marks    []string // mark ids fired during this step
	Names    []string // Templates(): sorted names
	Defined  string
}

func classify(err error) string {
	if err == nil {
		return ""
	}
	var te *template.Error
	if errors.As(err, &te) {
		return "analysis"
	}
	var xe texttemplate.ExecError
	if errors.As(err, &xe) {
		return "exec"
	}
	return "other"
}

// Runner executes histories against the real API.
type Runner struct {
	sets   []*template.Template // root handle of each set
	marks  []string
	mu     sync.Mutex
	tmpdir string
	nsub   int
	// Watchdog is the per-call time limit (0 = none).
	Watchdog time.Duration
}

func (r *Runner) mark(id string) string {
	r.mu.Lock()
	r.marks = append(r.marks, id)
	r.mu.Unlock()
	return ""
}

// NewSet creates the original set of a history.
func (r *Runner) NewSet(h *History) *template.Template {
	t := template.New(h.RootName).Funcs(template.FuncMap{"mark": r.mark})
	if h.CSP {
		t.CSPCompatible()
	}
	return t
}

func (r *Runner) Close() {
	if r.tmpdir != "" {
		os.RemoveAll(r.tmpdir)
	}
}

func (r *Runner) handle(op Op) *template.Template {
	if op.Set >= len(r.sets) || r.sets[op.Set] == nil {
		return nil
	}
	root := r.sets[op.Set]
	if op.Via == "" {
		return root
	}
	return root.Lookup(op.Via)
}

func (r *Runner) subdir() string {
	r.nsub++
	return fmt.Sprintf("d%d", r.nsub)
}

func (r *Runner) file(name, content string) string {
	if r.tmpdir == "" {
		d, err := os.MkdirTemp("", "verifhist")
		if err != nil {
			panic(err)
		}
		r.tmpdir = d
	}
	p := filepath.Join(r.tmpdir, name)
	os.MkdirAll(filepath.Dir(p), 0o755)
	if err := os.WriteFile(p, []byte(content), 0o644); err != nil {
		panic(err)
	}
	return p
}

// Step performs one op (with recover and optional watchdog).
func (r *Runner) Step(op Op) Result {
	if r.Watchdog == 0 {
		return r.step(op)
	}
	done := make(chan Result, 1)
	go func() { done <- r.step(op) }()
	select {
	case res := <-done:
		return res
	case <-time.After(r.Watchdog):
		return Result{Hang: true}
	}
}

func (r *Runner) step(op Op) (res Result) {
	defer func() {
		if p := recover(); p != nil {
			res.Panic = fmt.Sprintf("%v", p)
		}
	}()
	r.mu.Lock()
	r.marks = nil
	r.mu.Unlock()
	h := r.handle(op)
	if h == nil {
		res.Nil = true
		return
	}
	setErr := func(err error) {
		if err != nil {
			res.Err = err.Error()
			res.Class = classify(err)
		}
	}
	switch op.Kind {
	case "parse":
		_, err := h.VerifParse(op.Text)
		setErr(err)
	case "parsett":
		_, err := h.ParseFromTrustedTemplate(ttFromString(op.Text))
		setErr(err)
	case "parsefiles":
		_, err := h.VerifParseFiles(r.file(op.Target, op.Text))
		setErr(err)
	case "parsefilests":
		_, err := h.ParseFilesFromTrustedSources(tsFromString(r.file(op.Target, op.Text)))
		setErr(err)
	case "parseglob":
		// a directory of its own per call, so that the pattern only matches this call's file
		dir := filepath.Dir(r.file(filepath.Join(r.subdir(), op.Target), op.Text))
		_, err := h.VerifParseGlob(filepath.Join(dir, op.Target[:1]+"*"))
		setErr(err)
	case "parsefs":
		dir := filepath.Dir(r.file(filepath.Join(r.subdir(), op.Target), op.Text))
		_, err := h.ParseFS(template.TrustedFSFromTrustedSource(tsFromString(dir)), op.Target[:1]+"*")
		setErr(err)
	case "parsefszero":
		// the zero TrustedFS (what a failed TrustedFS.Sub returns) must give an error
		_, err := h.ParseFS(template.TrustedFS{}, "*")
		setErr(err)
	case "parsefszerosub":
		// Sub of the zero TrustedFS must give an error (or a TrustedFS on which ParseFS gives one)
		sub, err := template.TrustedFS{}.Sub(template.TrustedSourceFromConstant("d"))
		if err == nil {
			_, err = h.ParseFS(sub, "*")
		}
		setErr(err)
	case "new":
		h.New(op.Target)
	case "exec":
		var b bytes.Buffer
		err := h.Execute(&b, op.Data.Value())
		res.Out = b.String()
		setErr(err)
	case "exectmpl":
		var b bytes.Buffer
		err := h.ExecuteTemplate(&b, op.Target, op.Data.Value())
		res.Out = b.String()
		setErr(err)
	case "exechtml":
		out, err := h.ExecuteToHTML(op.Data.Value())
		res.Out = out.String()
		res.ZeroHTML = out == safehtml.HTML{}
		setErr(err)
	case "exectmplhtml":
		out, err := h.ExecuteTemplateToHTML(op.Target, op.Data.Value())
		res.Out = out.String()
		res.ZeroHTML = out == safehtml.HTML{}
		setErr(err)
	case "lookup":
		res.Nil = h.Lookup(op.Target) == nil
	case "templates":
		for _, t := range h.Templates() {
			res.Names = append(res.Names, t.Name())
		}
		sort.Strings(res.Names)
	case "defined":
		res.Defined = h.DefinedTemplates()
	case "name":
		res.Out = h.Name()
	case "clone":
		c, err := h.Clone()
		setErr(err)
		if err == nil {
			// the clone's root handle is the clone of the handle used
			r.sets = append(r.sets, c)
		} else {
			r.sets = append(r.sets, nil)
		}
	default:
		panic("unknown op " + op.Kind)
	}
	r.mu.Lock()
	res.Marks = append([]string(nil), r.marks...)
	r.mu.Unlock()
	return
}

// Run executes all ops of h on a new runner and returns the per-step results.
func Run(h *History, watchdog time.Duration) ([]Result, *Runner) {
	r := &Runner{Watchdog: watchdog}
	r.sets = []*template.Template{r.NewSet(h)}
	out := make([]Result, 0, len(h.Ops))
	for _, op := range h.Ops {
		res := r.Step(op)
		out = append(out, res)
		if res.Hang {
			break
		}
	}
	return out, r
}

// IsDef reports whether an op kind (re)defines templates.
func IsDef(kind string) bool {
	switch kind {
	case "parse", "parsett", "parsefiles", "parsefilests", "parseglob", "parsefs", "parsefszero", "parsefszerosub", "new":
		return true
	}
	return false
}

// IsExec reports whether an op kind executes a template.
func IsExec(kind string) bool {
	return kind == "exec" || kind == "exectmpl" || kind == "exechtml" || kind == "exectmplhtml"
}

// Lineage returns, for step i of h, the definition ops (in order) that built the set the step acts on:
// the definition ops of its ancestors up to each clone point and its own since then. Only definition ops
// that succeeded in the real run (results[j].Err == "") are part of the lineage.
func Lineage(h *History, results []Result, i int) []Op {
	target := h.Ops[i].Set
	// parent[s] = (set cloned from, step index of the clone op)
	type origin struct{ parent, step int }
	origins := map[int]origin{0: {-1, -1}}
	next := 1
	for j, op := range h.Ops {
		if op.Kind == "clone" && j < len(results) && !results[j].Nil {
			origins[next] = origin{op.Set, j}
			next++
		}
	}
	// chain of (set, upto step)
	type seg struct{ set, from, upto int }
	var segs []seg
	upto := i
	for s := target; s >= 0; {
		o, ok := origins[s]
		if !ok {
			break
		}
		segs = append([]seg{{s, o.step + 1, upto}}, segs...)
		upto = o.step
		s = o.parent
	}
	var out []Op
	for _, sg := range segs {
		for j := sg.from; j < sg.upto && j < len(h.Ops); j++ {
			op := h.Ops[j]
			if op.Kind == "new" && Frozen(h, results, j) {
				// New on a set that has been executed leaves the set as it is
				continue
			}
			if op.Set == sg.set && IsDef(op.Kind) && j < len(results) && results[j].Err == "" && !results[j].Nil && results[j].Panic == "" {
				if op.Via == "" {
					op.Via = RootVia(h, results, op.Set)
				}
				out = append(out, op)
			}
		}
	}
	return out
}

// Frozen reports whether the set that step i acts on has been executed (successfully or not) before step i.
func Frozen(h *History, results []Result, i int) bool {
	for k := 0; k < i && k < len(results); k++ {
		if h.Ops[k].Set == h.Ops[i].Set && IsExec(h.Ops[k].Kind) && !results[k].Nil {
			return true
		}
	}
	return false
}

// RootVia returns the name under which the root handle of a set is found in a fresh set: "" for the original
// set and for clones taken from a root handle, the member name for a clone taken from a member handle (the
// clone's root handle is then the clone of that member, and Parse on it gives that member the top-level body).
func RootVia(h *History, results []Result, set int) string {
	type origin struct {
		parent int
		via    string
	}
	origins := map[int]origin{}
	next := 1
	for j, op := range h.Ops {
		if op.Kind == "clone" && j < len(results) && !results[j].Nil {
			origins[next] = origin{op.Set, op.Via}
			next++
		}
	}
	for s := set; s > 0; {
		o, ok := origins[s]
		if !ok {
			return ""
		}
		if o.via != "" {
			if o.via == h.RootName {
				return ""
			}
			return o.via
		}
		s = o.parent
	}
	return ""
}

// Fresh builds a fresh set from the lineage's definition ops (clone points are not replayed: a clone is
// supposed to hold the same definitions) and performs the single call op on it.
func Fresh(h *History, lineage []Op, op Op) Result {
	r := &Runner{}
	defer r.Close()
	r.sets = []*template.Template{r.NewSet(h)}
	for _, d := range lineage {
		d.Set = 0
		r.step(d)
	}
	op.Set = 0
	return r.step(op)
}

// ---------- generation ----------

// Member is a template body from the pool.
type Member struct {
	Name  string
	Body  string
	Bad   string // non-empty: the category of analysis failure this member is built to have
	Calls []string
	Ctx   string // for helpers: the context class it is written for ("text" or "attr")
}

var goodBodies = []string{
	`<p>{{.V}}</p>`,
	`<a href="{{.U}}" title="{{.V}}">x</a>`,
	`<div title='{{.V}}'>{{.V}}</div><!-- c -->`,
	`{{if .C}}<b>{{.V}}</b>{{else}}<i>{{.V}}</i>{{end}}`,
	`<ul>{{range .L}}<li>{{$.V}}</li>{{end}}</ul>`,
	`<textarea>{{.V}}</textarea>`,
	`<a href="/x?q={{.V}}">{{.V}}</a>`,
	`<script>{{.T}}</script><p id="{{.I}}">{{.V}}</p>`,
	`plain text &amp; {{.V}} < 3`,
	`{{with .Next}}<span>{{.V}}</span>{{end}}`,
	`<input value="{{.V}}" {{if .C}}checked{{end}}>`,
	`<img src="{{.U}}" alt="{{.V}}">`,
	`<p>{{.V | html}}</p>`,
	`<div>{{.V | print}}</div><a href="/p?q={{.V | urlquery}}">x</a>`,
	`<b>{{print .V .C}}</b>`,
	`<ul>{{template "tree" .}}</ul>`,
	`<ol><li>{{template "tree2" .}}</li></ol>`,
	`<textarea>{{template "hs" .}}</textarea>`,
	`<script>{{template "hs" .}}</script>`,
	`<title>{{template "hs" .}}</title><style>{{template "hss" .}}</style>`,
	`<p title="{{template "ht"}}">x</p>`,
	`<a href="/p?{{template "ht"}}">y</a>`,
	// a text-only helper called inside URL values with different static text in front of the call
	`<a href="/p/{{template "ht2"}}/{{.V}}">x</a>`,
	`<a href="/q{{template "ht2"}}?q={{.V}}">y</a>`,
	`<a href="/r?a={{template "ht2"}}&amp;b={{template "ht2"}}{{.V}}">z</a>`,
	`<div>{{template "hv" .}}</div>`,
	// hc completes the tag name of its caller: the element is script, but known to the engine by the prefix "s" only
	`<s{{template "hc"}}var x = 1;`,
	// recursion after an optional element (the list of alternative element names must not grow with the depth)
	`<ul>{{template "item" .}}</ul>`,
	`<a href="/{{template "qn" .}}z">w</a>`,
}

// fixedHelpers are defined in every generated set. They are only reached through their callers (the generator never
// executes them directly): tree/tree2 recurse (guarded by the data) through an element and call another helper;
// hs/hss are needed inside different special elements; ht is text only and needed inside attribute values.
var fixedHelpers = map[string]string{
	"tree":  `<li>{{template "label" .V}}{{with .Next}}<ul>{{template "tree" .}}</ul>{{end}}</li>`,
	"tree2": `{{template "label" .V}}{{with .Next}}</li><li>{{template "tree2" .}}{{end}}`,
	"label": `<i>{{.}}</i>`,
	"hs":    `{{.T}}`,
	"hss":   `{{.SS}}`,
	"ht":    `1<2 &amp; a&b`,
	"ht2":   `v2`,
	"hv":    `{{.V}}`,
	"hc":    `cript>`,
	// recursion inside an attribute value in which every level joins branches that end in differently named attributes
	"qn":   `{{if .C}}x" title="{{else}}y" alt="{{end}}{{with .Next}}{{template "qn" .}}{{end}}`,
	"item": `{{if .V}}<li>{{.V}}</li>{{end}}{{with .Next}}{{template "item" .}}{{end}}`,
	// pieces for the sibling pairs below
	"hu":   `/{{.V}}`,
	"hcs":  `script:{{.V}}`,
	"up":   `../`,
	"cl":   `>`,
	"rl":   `icon" href="{{.U}}"`,
	"hi":   `<li>{{.V}}</li>`,
	"hj":   `if (a < b) f()`,
	"h58":  `58;{{.V}}`,
	"hqv":  `="/x/{{.V}}"`,
	"halt": `{{if .C}} href{{end}}`,
}

// siblingPairs: two members that need the same helper in situations the engine has to tell apart although they are
// of the same kind (good body, second body, failure category of the second body: "" = none, "runtime" = analysis
// succeeds and the execution fails with a string where a typed value is needed). What the second member does must not
// depend on whether the first was executed before (sixth bug-hunt round: F-openprefix, F-rederive, F-reentryview,
// F-attrsplitcall).
var siblingPairs = [][3]string{
	{`<script src="https://static.example.com{{template "hu" .}}"></script>`, `<script src="https:/{{template "hu" .}}"></script>`, "open-prefix-call"},
	{`<a href="/x/java{{template "hcs" .}}">x</a>`, `<a href="java{{template "hcs" .}}">x</a>`, "open-prefix-call"},
	{`<a href="/s/{{template "hv" .}}">x</a>`, `<a href="/s/.%2{{template "hv" .}}">x</a>`, "open-prefix-call"},
	{`<a href="/s/{{template "hv" .}}">x</a>`, `<a href="/s/&#x2{{template "hv" .}}">x</a>`, "open-prefix-call"},
	{`<p style="color:{{template "hss" .}}">x</p>`, `<p style="color:&#x{{template "hss" .}}">x</p>`, "open-prefix-call"},
	{`<a href="/search?q=&#{{template "h58" .}}">x</a>`, `<a href="javascript&#{{template "h58" .}}">x</a>`, "open-prefix-call"},
	{`<p style="color: red; {{template "hss" .}}">x</p>`, `<p style="color: red; &#x{{template "hss" .}}">x</p>`, "open-prefix-call"},
	{`<p style="{{if .C}}width:9em;{{else}}width:5em;{{end}}{{template "hss" .}}">x</p>`, `<p style="{{if .C}}width:9em;{{else}}width:5em;{{end}}&#x{{template "hss" .}}">x</p>`, "open-prefix-call"},
	{`<iframe {{if .C}}href{{else}}src{{end}}{{template "hqv" .}}></iframe>`, `<iframe src{{template "halt" .}}{{template "hqv" .}}></iframe>`, "open-prefix-call"},
	{`<link rel="{{template "rl" .}}>`, `<link rel="stylesheet {{template "rl" .}}>`, "runtime"},
	{`<a href="/base/{{template "up"}}">y</a>`, `<a href="{{range .L}}{{template "up"}}{{template "up"}}{{end}}index.html">x</a>`, ""},
	{`<my-list>{{range .L}}{{template "hi" $}}{{end}}</my-list>`, `<my-list class="wide">{{range .L}}{{template "hi" $}}{{end}}</my-list>`, ""},
	{`<a href="?q={{range .L}}{{template "hv" $}}&amp;q={{end}}">a</a>`, `<a href="{{range .L}}?q={{template "hv" $}}{{end}}">b</a>`, ""},
	{`<p>{{template "hv" .}}</p>`, `<option selec{{if .C}}{{end}}ted{{template "cl" .}}{{template "hv" .}}</option>`, ""},
	{`<p>{{template "hv" .}}</p>`, `<a href="{{template "hv" .}}">x</a>`, ""},
	{`<p>{{template "hv" .}}</p>`, `<textarea>{{template "hv" .}}</textarea><p title="{{template "hv" .}}">y</p>`, ""},
	{`<p>{{template "ht"}}</p>`, `<p title="{{template "ht"}}">x</p>`, ""},
	{`<p>{{template "hj"}}</p>`, `<script>{{template "hj"}}</script>`, ""},
}

// NoDirect reports whether a template name must only be reached through callers.
func NoDirect(name string) bool {
	_, ok := fixedHelpers[name]
	return ok
}

// cspBodies: inline event handlers and javascript: URLs in the static template text.
var cspBodies = []string{`<span onclick="go()">{{.V}}</span>`, `<a href="javascript:void(0)">{{.V}}</a>`, `<a href="javascript:void(0)" onclick="go()">x</a>`, `<body onload="init()"><p>{{.V}}</p></body>`}

// runtime failures after partial output (analysis succeeds): typed-only context fed a string
var runtimeBadBodies = []string{
	`<p>partial</p><script>{{.V}}</script>`,
	`<b>{{.V}}</b><div id="{{.V}}">`,
	`x<a target="{{.V}}">`,
	`{{.V}}<script src="{{.U}}"></script>`,
	// the first rel counts: the href needs a TrustedResourceURL
	`<link {{if .C}}title {{end}}rel="stylesheet" rel="icon" href="{{.U}}">`,
	// a DOCTYPE ends at the first '>': the action is in a script body
	`<!DOCTYPE html <p title="><script>{{.V}}</script>">`,
}

var badBodies = map[string][]string{
	"if-branches":        {`{{if .C}}<a href="{{end}}x`, `{{if .C}}<b title='{{else}}<b>{{end}}`},
	"range-reentry":      {`{{range .L}}<a href="{{end}}`, `{{range .L}}<textarea>{{end}}`, `<b{{range .L}}><script{{end}}>alert(1)</script>`, `<ul>{{range .L}}<li title="{{else}}<li title="{{end}}{{.V}}"></li></ul>`, `<a target="{{range .L}}{{.V}}x{{end}}">y</a>`},
	"nontext-end":        {`<p>x</p>{{if .C}}<script{{else}}<div{{end}}>`, `<s{{if .C}}cript{{end}}>`, `<p>x</p>{{if .C}}<script{{else}}<br{{end}}>`, `<a href="`, `<p>x</p><textarea>`, `<b `, `<a title='x`, `<p>x</p><!-- TODO {{.V}}`, `<!--`, `<p>{{.V}}</p><script>var a=1;`, `<style>p{}`},
	"nontext-end-call":   {`<p>{{template "h0" .}}</p><a href="`, `{{template "h0" .}}<b title='x`, `<i>{{template "h0" .}}</i><textarea>`},
	"action-in-tag":      {`<a {{.V}}>`, `<a{{.V}}>`, `<a title="x" {{.V}}="y">`},
	"unquoted-value":     {`<a title={{.V}}>`, `<a href=/x/{{.V}}>`},
	"unknown-element":    {`<foo>{{.V}}</foo>`, `<svg>{{.V}}</svg>`, `<object>{{.V}}</object>`, `<xmp>{{template "hv" .}}</xmp>`, `<svg>{{template "ht2"}}{{.V}}</svg>`},
	"unknown-attribute":  {`<a foo="{{.V}}">`, `<div onclick="{{.V}}">`, `<p background="{{.V}}">`},
	"unsafe-url-prefix":  {`<a href="javascript:{{.V}}">`, `<a href="java{{.V}}">`, `<script src="http://h/{{.V}}"></script>`},
	"ambiguous-prefix":   {`<a href="{{if .C}}/x{{else}}/y{{end}}{{.V}}">`, `<a href="{{if .C}}{{else}}java{{end}}{{.V}}">`},
	"partial-charref":    {`<a href="/x&am{{.V}}">`, `<a href="/x&#{{.V}}">`},
	"undefined-callee":   {`<p>{{template "nope" .}}</p>`},
	"empty-callee":       {`<p>{{template "empty" .}}</p>`},
	"indirect-recursion": {`{{define "ry"}}{{if .Next}}{{template "rz" .Next}}{{end}}3"{{end}}{{define "rz"}}{{template "ry" .}}{{end}}|||<select size="{{template "ry" .}}></select>`},
	"recursion":          {`{{define "rec"}}{{if .Next}}<a href="{{template "rec" .Next}}{{end}}{{end}}|||{{template "rec" .}}`, `<a href="{{template "SELF" .}}`},
	// a recursive helper that ends in another context than it starts in: the context of the recursive call cannot be
	// computed (the call may or may not run)
	"recursion-unbalanced": {`{{define "ru"}}{{.V}}{{if .Next}}{{template "ru" .Next}}{{end}}</script>{{end}}|||<script>{{template "ru" .}}`, `{{define "rv"}}{{if .Next}}{{template "rv" .Next}}{{end}}{{.V}}"></a>{{end}}|||<a href="{{template "rv" .}}`, `{{define "rw"}}{{if .C}}{{template "rw" .Next}}{{end}}{{.V}}</style>{{end}}|||<style>{{template "rw" .}}`, `{{define "rx"}}{{.V}}{{if .Next}}{{template "rx" .Next}}{{end}}"></iframe>{{end}}|||<iframe srcdoc="{{template "rx" .}}`},
	// branches that open different elements one of which is a special element, followed by markup
	"mixed-special": {`{{if .C}}<script{{else}}<div{{end}}>1<b>{{.V}}</b></script>`, `{{if .C}}<script>{{else}}<title>{{end}}x</title>{{.V}}</script>`, `{{if .C}}<style{{else}}<p{{end}}>a<i>x</i></style>`},
	// a name inside a tag split by a template node, then an action in that tag or element
	"name-split":            {`<s{{if .C}}cript{{end}}>{{template "hv" .}}</script>`, `<s{{template "hc"}}{{.V}}`, `<img{{if .C}}l{{end}}>{{.V}}`, `<a title{{if .C}} {{end}}href="{{.U}}">x</a>`, `<s{{if .C}}cript{{end}}>{{.V}}</script>`, `<b{{if .C}} {{end}}title="{{.V}}">x</b>`, `<textarea{{if .C}} r{{end}}ows="2">a<b>{{.V}}</textarea>`, `<link re{{if .C}}l{{end}}="stylesheet" rel="icon" href="{{.U}}">`},
	"range-reentry-rewrite": {`<a title="{{range .L}}{{.V}}" href="{{end}}">x</a>`, `<p>{{range .L}}{{.V}}<script>{{else}}<script>{{end}}</script>`, `<p {{range .L}}title="{{.V}}"><p{{end}}>`, `<a href="/p/{{range .L}}{{.V}}?x={{end}}">y</a>`},
	"recursion-open-name":   {`{{define "rn"}}{{if .Next}}{{template "rn" .Next}}title="{{.V}}"{{end}}><a{{end}}|||<a {{template "rn" .}} >`},
	"recursion-hidden":      {`{{define "rh"}}{{if .Next}}{{template "rh" .Next}}{{.V}}{{else}}</div>{{if .C}}<script{{else}}<div{{end}}>{{end}}{{end}}|||<div>{{template "rh" .}}`, `{{define "ri"}}{{if .Next}}{{template "ri" .Next}}{{.V}}{{else}}"></a><a href="{{end}}{{end}}|||<a href="/x/{{template "ri" .}}">y</a>`, `{{define "rj"}}/{{if .Next}}{{template "rj" .Next}}{{end}}{{end}}|||<script src="{{template "rj" .}}x{{.V}}"></script>`, `{{define "rk"}}{{if .Next}}{{template "rk" .Next}}{{.V}}{{else}}" {{if .C}}href{{else}}title{{end}}="{{end}}{{end}}|||<a title="{{template "rk" .}}">z</a>`},
	"tag-syntax":            {`<a>x</a /="><img title=" data-x="{{.V}}">`, `<a {{if .C}}href{{end}}="/p?q=" title="{{.V}}">x</a>`, `{{if .C}}<a{{else}}</a{{end}} /="/p?q=" data-x="{{.V}}">`, `<script </script>{{.V}}</script>`, `<a title={{if .C}}x{{end}} alt="{{.V}}">y</a>`, `<b title{{if .C}}/{{end}}="{{.V}}">x</b>`},
	"predefined-escaper":    {`{{.V | html | print}}`, `<a title={{.V | html}}>`},
	"js-template":           {"<script>var a = `x</script>", "<script>`${</script>"},
	"enum-partial":          {`<a target="x{{.V}}">`},
	// the static text in front of a CALL is what makes the action of the called template unacceptable; "pok" needs
	// the same helper after an acceptable text of the same class and is executed first (CategoryHistory)
	"open-prefix-call": {
		`{{define "pu"}}/{{.V}}{{end}}{{define "pok"}}<script src="https://static.example.com{{template "pu" .}}"></script>{{end}}|||<script src="https:/{{template "pu" .}}"></script>`,
		`{{define "pcs"}}script:{{.V}}{{end}}{{define "pok"}}<a href="/x/java{{template "pcs" .}}">x</a>{{end}}|||<a href="java{{template "pcs" .}}">x</a>`,
		`{{define "pv"}}{{.V}}{{end}}{{define "pok"}}<a href="/s/{{template "pv" .}}">x</a>{{end}}|||<a href="/s/.%2{{template "pv" .}}">x</a>`,
		`{{define "pv"}}{{.V}}{{end}}{{define "pok"}}<a href="/s/{{template "pv" .}}">x</a>{{end}}|||<a href="/s/&#x2{{template "pv" .}}">x</a>`,
		`{{define "pv"}}{{.V}}{{end}}{{define "pok"}}<a href="/s/{{template "pv" .}}">x</a>{{end}}|||<a href="/s/&am{{template "pv" .}}">x</a>`,
		`{{define "pv"}}{{.V}}{{end}}{{define "pok"}}<a href="/s/{{template "pv" .}}">x</a>{{end}}|||<a href="/s /{{template "pv" .}}">x</a>`,
		`{{define "pss"}}{{.SS}}{{end}}{{define "pok"}}<p style="color:{{template "pss" .}}">x</p>{{end}}|||<p style="color:&#x{{template "pss" .}}">x</p>`,
		`{{define "p58"}}58;{{.V}}{{end}}{{define "pok"}}<a href="/search?q=&#{{template "p58" .}}">x</a>{{end}}|||<a href="javascript&#{{template "p58" .}}">x</a>`,
		`{{define "p0"}}0;{{.V}}{{end}}{{define "pok"}}<script src="/s&#47{{template "p0" .}}"></script>{{end}}|||<script src="https://e.com&#47{{template "p0" .}}"></script>`,
		`{{define "pss"}}{{.SS}}{{end}}{{define "pok"}}<p style="color: red; {{template "pss" .}}">x</p>{{end}}|||<p style="color: red; &#x{{template "pss" .}}">x</p>`,
		`{{define "pss"}}{{.SS}}{{end}}{{define "pok"}}<p style="{{if .C}}width:9em;{{else}}width:5em;{{end}}{{template "pss" .}}">x</p>{{end}}|||<p style="{{if .C}}width:9em;{{else}}width:5em;{{end}}&#x{{template "pss" .}}">x</p>`,
		`{{define "palt"}}{{if .C}} href{{end}}{{end}}{{define "pval"}}="/x/{{.V}}"{{end}}{{define "pok"}}<iframe {{if .C}}href{{else}}src{{end}}{{template "pval" .}}></iframe>{{end}}|||<iframe src{{template "palt" .}}{{template "pval" .}}></iframe>`,
	},
}

// BadCategories lists the categories (deterministic order).
func BadCategories() []string {
	var out []string
	for k := range badBodies {
		out = append(out, k)
	}
	sort.Strings(out)
	return out
}

var helperText = []string{`<b>{{.V}}</b>`, `{{.V}}`, `<i title="{{.V}}">{{.V}}</i>`, `{{if .C}}{{.V}}{{else}}-{{end}}`, `{{with .Next}}{{template "SELF" .}}{{end}}<u>{{.V}}</u>`}
var helperAttr = []string{`{{.V}}`, `x{{.V}}y`, `{{if .C}}{{.V}}{{end}}&amp;`}

// unbalanced helpers: name -> body; they fail when executed on their own (non-text end context) but are valid
// pieces of the callers below
// (j0 is script text: on its own it is malformed HTML - "<b)" - and fails analysis for another reason than its end context)
var unbalancedHelpers = map[string]string{"o0": `<a href="`, "o1": `<div title='`, "o2": `<textarea>`, "o3": `<p><b`, "c0": `">`, "j0": `if (a<b) { f("x") }`, "q0": `"><a href="/y?q=`}
var unbalancedCallers = []string{
	`{{template "o0"}}/x">a</a>`, `{{template "o0"}}{{.U}}">b</a>`, `{{template "o0"}}/x">{{.V}}</a>{{template "o0"}}{{.U}}">`, `{{template "o0"}}/p?q={{.V}}">c</a>`,
	`{{template "o1"}}{{.V}}'>x</div>`, `{{template "o1"}}static'>{{.V}}</div>`, `{{if .C}}{{template "o1"}}a'>{{else}}<div>{{end}}{{.V}}</div>`,
	`{{template "o2"}}{{.V}}</textarea>`, `{{template "o2"}}</textarea>{{.V}}`,
	`{{template "o3"}} title="{{.V}}">x</b></p>`, `{{template "o3"}}>{{.V}}</b></p>`,
	// q0 closes the attribute and the tag it is called in and opens the same attribute again, with the very text
	// that one of its call sites has in front of the call
	`<a href="/y?q={{template "q0"}}{{.V}}">x</a>`, `<a href="{{template "q0"}}{{.V}}">y</a>`, `<a href="/z/{{template "q0"}}{{.V}}">z</a>`,
	`<script>{{template "j0"}}</script>`, `<script>var x = 1;{{template "j0"}}</script><p>{{.V}}</p>`,
	`<a href="{{.U}}{{template "c0"}}x</a>`, `<a title="{{.V}}{{template "c0"}}{{.V}}</a>`, `{{template "o0"}}{{.U}}{{template "c0"}}{{.V}}</a>`,
}

var callersText = []string{`<p>{{template "H" .}}</p>`, `{{template "H" .}}{{template "H" .}}`, `<ul>{{range .L}}<li>{{template "H" $}}</li>{{end}}</ul>`, `<div>{{if .C}}{{template "H" .}}{{end}}</div>`}
var callersAttr = []string{`<a title="{{template "H" .}}">x</a>`, `<input value='{{template "H" .}}'>`, `<textarea>{{template "H" .}}</textarea>`, `<a href="/x?q={{template "H" .}}">y</a>`}

// Options of the history generator.
type Options struct {
	MaxOps       int
	BadMembers   bool // include members whose analysis fails (C05, C08)
	RuntimeBad   bool // include members that fail at run time after partial output
	NoSiblings   bool // no sibling pairs (members that need one helper after different static texts / in different context classes)
	MixedHelpers bool // allow a helper to be called from text and attribute contexts, and fixed helpers to be executed on their own (the former K-rederive zone)
	Clones       bool // clone ops
	ParseAfter   bool // definition ops after executions (must fail)
	FileOps      bool // ParseFiles / ParseGlob / ParseFS entry points
	ReadOnlyOps  bool
	Unguarded    bool // allow unguarded recursion (costly: text/template depth limit)
	NoRedefine   bool // definition ops only introduce fresh names (x1, x2)
	AttrHelpers  bool // helpers may be written for attribute contexts (derived copies), each used in one context class only
	Unbalanced   bool // helpers that end in another context than they start in, with callers that complete them
	Emptied      bool // a helper that is only a comment in a branch (its text node is emptied when it is executed on its own) and a caller that needs it inside a tag (C08 only: the later result depends on the order, K-rederive)
	CSP          bool // sometimes a CSP-compatible set, and members with inline handlers / javascript: URLs
	Markers      bool // untrusted data values carry the marker zQ<n>x at both ends (C02 location oracle)
}

type genState struct {
	t       *rapid.T
	o       Options
	h       *History
	names   [][]string // per set: defined template names (model, approximate)
	bad     map[string]string
	nsets   int
	helpers []string
}

func (g *genState) n(lo, hi int, l string) int { return rapid.IntRange(lo, hi).Draw(g.t, l) }
func (g *genState) pick(l string, xs []string) string {
	return rapid.SampledFrom(xs).Draw(g.t, l)
}

func define(name, body string) string {
	pre := ""
	if k := strings.Index(body, "|||"); k >= 0 {
		// "pre|||body": top-level helper definitions the member brings along
		pre, body = body[:k], body[k+3:]
	}
	return pre + `{{define "` + name + `"}}` + strings.ReplaceAll(body, "SELF", name) + `{{end}}`
}

// Gen draws a history.
func Gen(t *rapid.T, o Options) *History {
	g := &genState{t: t, o: o, h: &History{RootName: rapid.SampledFrom([]string{"root", "root", "main", "t.tmpl"}).Draw(t, "root")}, bad: map[string]string{}}
	g.names = [][]string{{}}
	g.nsets = 1
	if o.CSP && g.n(0, 2, "csp") == 0 {
		g.h.CSP = true
		g.flagf("csp-compatible")
	}
	// --- definitions of the original set ---
	var text strings.Builder
	add := func(name, body string) {
		text.WriteString(define(name, body))
		g.names[0] = append(g.names[0], name)
	}
	var fks []string
	for k := range fixedHelpers {
		fks = append(fks, k)
	}
	sort.Strings(fks)
	for _, k := range fks {
		text.WriteString(define(k, fixedHelpers[k]))
	}
	if o.MixedHelpers && g.n(0, 2, "directfixed") == 0 {
		// the fixed helpers may be executed on their own as well (a text-context use of a helper that members need
		// in other contexts: since F-rederive the order must not matter)
		g.names[0] = append(g.names[0], fks...)
		g.flagf("fixed-helpers-direct")
	}
	nh := g.n(1, 2, "nhelpers")
	for i := 0; i < nh; i++ {
		name := fmt.Sprintf("h%d", i)
		ctx := "text"
		if (o.MixedHelpers || o.AttrHelpers) && g.n(0, 1, "hctx") == 0 {
			ctx = "attr"
		}
		body := g.pick("hbody", helperText)
		if ctx == "attr" {
			body = g.pick("hbodya", helperAttr)
		}
		add(name, body)
		g.helpers = append(g.helpers, name+":"+ctx)
	}
	if o.Emptied {
		add("hn", `{{if .C}}<!-- c -->{{end}}`)
		add("e0", `<a title{{template "hn" .}}="x">y</a>`)
		add("e1", `<p>{{template "hn" .}}</p>`)
		g.flagf("emptied-text-node")
	}
	if o.Unbalanced {
		var ks []string
		for k := range unbalancedHelpers {
			ks = append(ks, k)
		}
		sort.Strings(ks)
		for _, k := range ks {
			add(k, `{{mark "`+k+`"}}`+unbalancedHelpers[k])
			if k != "c0" {
				g.bad[k] = "helper-nontext-end" // fails on its own, valid as a callee
			}
		}
		// "c0" (">) is plain text when executed on its own
		nu := g.n(1, 3, "nunbalanced")
		for i := 0; i < nu; i++ {
			add(fmt.Sprintf("u%d", i), g.pick("ucaller", unbalancedCallers))
		}
		g.flagf("unbalanced-helpers")
	}
	nm := g.n(1, 4, "nmembers")
	for i := 0; i < nm; i++ {
		name := fmt.Sprintf("m%d", i)
		switch k := g.n(0, 9, "mkind"); {
		case k <= 2 && o.CSP && g.n(0, 3, "cspbody") == 0:
			// fine in an ordinary set, an analysis failure (ErrCSPCompatibility) in a CSP-compatible one
			add(name, `{{mark "`+name+`"}}`+g.pick("cspb", cspBodies))
			if g.h.CSP {
				g.bad[name] = "csp"
				g.flagf("bad:csp")
			}
		case k <= 2:
			add(name, g.pick("good", goodBodies))
		case k == 3 && !o.NoSiblings:
			pair := siblingPairs[g.n(0, len(siblingPairs)-1, "pair")]
			if pair[2] == "runtime" && !o.RuntimeBad {
				pair = siblingPairs[len(siblingPairs)-1]
			}
			add(name, pair[0])
			sn := name + "s"
			switch pair[2] {
			case "":
				add(sn, pair[1])
			case "runtime":
				add(sn, pair[1])
				g.h.RuntimeBad = append(g.h.RuntimeBad, sn)
				g.flagf("runtime-bad")
			default:
				add(sn, `{{mark "`+sn+`"}}`+pair[1])
				g.bad[sn] = pair[2]
				g.flagf("bad:" + pair[2])
			}
			g.flagf("sibling-pair")
		case k <= 6:
			hc := g.pick("helper", g.helpers)
			hn, ctx := hc[:strings.Index(hc, ":")], hc[strings.Index(hc, ":")+1:]
			var body string
			if ctx == "attr" && (o.MixedHelpers && g.n(0, 1, "mixed") == 0) {
				body = g.pick("callerA", callersAttr)
				g.flagf("attr-caller")
			} else if ctx == "attr" {
				body = g.pick("callerA", callersAttr)
			} else {
				body = g.pick("callerT", callersText)
			}
			if o.MixedHelpers && g.n(0, 3, "cross") == 0 {
				// the K-rederive zone: the same helper from the other context class
				if ctx == "attr" {
					body = g.pick("callerT", callersText)
				} else {
					body = g.pick("callerA", callersAttr)
				}
				g.flagf("mixed-helper")
			}
			add(name, strings.ReplaceAll(body, "H", hn))
		case k == 7 && o.RuntimeBad:
			add(name, g.pick("rtbad", runtimeBadBodies))
			g.h.RuntimeBad = append(g.h.RuntimeBad, name)
			g.flagf("runtime-bad")
		case k >= 7 && o.BadMembers:
			cat := g.pick("badcat", BadCategories())
			body := g.pick("badbody", badBodies[cat])
			if k := strings.Index(body, "|||"); k >= 0 {
				add(name, body[:k+3]+`{{mark "`+name+`"}}`+body[k+3:])
			} else {
				add(name, `{{mark "`+name+`"}}`+body)
			}
			g.bad[name] = cat
			g.flagf("bad:" + cat)
			if cat == "empty-callee" {
				g.h.Ops = append(g.h.Ops, Op{Kind: "new", Target: "empty"})
			}
			// sometimes a caller of the bad member
			if g.n(0, 1, "badcaller") == 0 {
				cn := name + "c"
				add(cn, g.pick("badcallerbody", []string{`<p>{{template "` + name + `" .}}</p>`, `{{if .C}}{{template "` + name + `" .}}{{end}}ok`, `{{mark "` + cn + `"}}<div>{{template "` + name + `" .}}</div>`}))
				g.bad[cn] = "calls:" + cat
			}
		default:
			add(name, g.pick("good", goodBodies))
		}
	}
	g.h.Bad = g.bad
	defs := text.String()
	// split the definitions over 1-2 parse ops, sometimes through other entry points
	kind := "parse"
	if g.n(0, 4, "viatt") == 0 {
		kind = "parsett"
	}
	g.h.Ops = append(g.h.Ops, Op{Kind: kind, Text: defs})
	if g.n(0, 3, "rootbody") == 0 {
		g.h.Ops = append(g.h.Ops, Op{Kind: "parse", Text: `<html>{{template "m0" .}}</html>`})
		g.names[0] = append(g.names[0], g.h.RootName)
	}
	// --- the calls ---
	nops := g.n(1, o.MaxOps, "nops")
	executed := map[int]bool{}
	// New(existing name) resets the template in the html-level set only; a later Clone copies the old body from the
	// text-level set. That quirk is outside the listed properties, so the two are not combined in one set.
	newedExisting := map[int]bool{}
	handleName := map[int]string{0: g.h.RootName}
	for i := 0; i < nops; i++ {
		set := g.n(0, g.nsets-1, "set")
		names := g.names[min(set, len(g.names)-1)]
		via := ""
		if g.n(0, 3, "via") == 0 && len(names) > 0 {
			via = g.pick("vianame", names)
		}
		switch k := g.n(0, 19, "opkind"); {
		case k <= 9:
			op := Op{Kind: g.pick("execkind", []string{"exectmpl", "exectmpl", "exectmpl", "exectmplhtml", "exec", "exechtml"}), Set: set, Via: via, Data: g.data()}
			if op.Kind == "exectmpl" || op.Kind == "exectmplhtml" {
				op.Target = g.pick("target", append(append([]string{}, names...), "nope"))
			} else if via == "" && len(names) > 0 {
				op.Via = g.pick("vianame2", names)
			}
			g.h.Ops = append(g.h.Ops, op)
			executed[set] = true
		case k <= 11 && o.ReadOnlyOps:
			g.h.Ops = append(g.h.Ops, Op{Kind: g.pick("rokind", []string{"lookup", "templates", "defined", "name"}), Set: set, Via: via, Target: g.pick("lt", append(append([]string{}, names...), "nope"))})
		case k <= 13 && o.Clones && !newedExisting[set]:
			g.h.Ops = append(g.h.Ops, Op{Kind: "clone", Set: set, Via: via})
			if via == "" {
				handleName[g.nsets] = handleName[set]
			} else {
				handleName[g.nsets] = via
			}
			g.names = append(g.names, append([]string{}, names...))
			g.nsets++
		case k <= 17 && (o.ParseAfter || !executed[set]):
			// (re)definition: a new member, or a redefinition of a helper with a different context need
			// (helpers that callers need in a non-text context are not redefined: a redefinition with an action in
			// it, executed on its own and then needed by such a caller, is the K-rederive zone, which only the
			// "mixed" sub-search of C06 enters)
			var redef []string
			for _, n := range names {
				if _, unb := unbalancedHelpers[n]; !unb && !NoDirect(n) {
					redef = append(redef, n)
				}
			}
			name := g.pick("defname", append(redef, "x1", "x2"))
			if o.NoRedefine {
				name = g.pick("freshname", []string{"x1", "x2"})
			}
			body := g.pick("defbody", append(append([]string{}, goodBodies...), helperText...))
			if strings.Contains(body, "SELF") {
				body = `{{.V}}`
			}
			kinds := []string{"parse", "parse", "parsett", "new"}
			if o.FileOps {
				kinds = append(kinds, "parsefiles", "parsefilests", "parseglob", "parsefs", "parsefszero", "parsefszerosub")
			}
			op := Op{Kind: g.pick("defkind", kinds), Set: set, Via: via, Target: name, Text: `{{define "` + name + `"}}` + body + `{{end}}`}
			if op.Kind != "parse" && op.Kind != "parsett" && (name == g.h.RootName || name == handleName[set]) {
				// (the file-based entry points call New(file name) on the handle as well)
				// New(root name) resets and disassociates the root handle itself (documented); the runner keeps
				// using that handle, so this is not generated
				op.Kind = "parse"
			}
			if op.Kind == "new" {
				for _, n := range names {
					if n == name {
						newedExisting[set] = true
					}
				}
			}
			if strings.HasPrefix(op.Kind, "parsef") || op.Kind == "parseglob" {
				// file-based: the file name is the template name, the content its body
				op.Text = body
			}
			_ = 0
			g.h.Ops = append(g.h.Ops, op)
			if set < len(g.names) {
				g.names[set] = append(g.names[set], name)
			}
			if executed[set] {
				g.flagf("def-after-exec")
			}
		default:
			op := Op{Kind: "exectmpl", Set: set, Via: via, Data: g.data(), Target: g.pick("target", append(append([]string{}, names...), "nope"))}
			g.h.Ops = append(g.h.Ops, op)
			executed[set] = true
		}
	}
	return g.h
}

func (g *genState) flagf(f string) {
	for _, x := range g.h.Flags {
		if x == f {
			return
		}
	}
	g.h.Flags = append(g.h.Flags, f)
}

var dataV = []string{"", "a", "x&y", "<b>", "\" onx=\"", "'", "a b", "</textarea>", "javascript:alert(1)", "ltr", "_blank", "é"}

func (g *genState) data() *DataSpec {
	d := &DataSpec{V: evid.BStr(g.pick("v", dataV)), U: evid.BStr(g.pick("u", []string{"/x", "javascript:alert(1)", "https://h/p?a=1&b=2", ""})), C: rapid.Bool().Draw(g.t, "c"), L: g.n(0, 2, "l"), Deep: g.n(0, 2, "deep")}
	if g.o.Markers {
		d.V = evid.BStr("zQ0x" + g.pick("vp", markerPayloads) + "zQ0x")
		d.U = evid.BStr("zQ1x" + g.pick("up", markerPayloads) + "zQ1x")
	}
	if g.n(0, 9, "typed") == 0 {
		d.Typ = g.pick("typ", tx.TypeNames)
	}
	return d
}

var markerPayloads = []string{"", "\"", "'", "<", ">", " ", "javascript:", "</textarea>", "</script>", "\" onx=\"", "' onx='", "//evil.test/", ":", "&", "=", "/"}

// BadBodies returns the pool bodies of a category.
func BadBodies(cat string) []string { return badBodies[cat] }

// CategoryHistory builds the deterministic history for one failing body: the bad member "m0", a caller "m0c",
// a good neighbour "g"; the bad member is executed through entry point kind, then the neighbour, the caller, and
// the bad member again.
func CategoryHistory(cat string, bi int, kind string, csp bool) History {
	h := History{RootName: "root", CSP: csp, Bad: map[string]string{"m0": cat, "m0c": "calls:" + cat}, Flags: []string{"bad:" + cat}}
	body := badBodies[cat][bi]
	var text string
	if k := strings.Index(body, "|||"); k >= 0 {
		text = define("m0", body[:k+3]+`{{mark "m0"}}`+body[k+3:])
	} else {
		text = define("m0", `{{mark "m0"}}`+body)
	}
	text += `{{define "m0c"}}{{mark "m0c"}}<div>{{template "m0" .}}</div>{{end}}{{define "g"}}<p>{{.V}}</p>{{end}}`
	if cat == "empty-callee" {
		h.Ops = append(h.Ops, Op{Kind: "new", Target: "empty"})
	}
	h.Ops = append(h.Ops, Op{Kind: "parse", Text: text})
	d := &DataSpec{V: "<v>", U: "/u", C: true, L: 2, Deep: 1}
	call := func(name string) Op {
		if kind == "exec" || kind == "exechtml" {
			return Op{Kind: kind, Via: name, Data: d}
		}
		return Op{Kind: kind, Target: name, Data: d}
	}
	if cat == "open-prefix-call" {
		h.Ops = append(h.Ops, call("pok"))
	}
	h.Ops = append(h.Ops, call("m0"), call("g"), call("m0c"), call("m0"), Op{Kind: "lookup", Target: "m0"}, call("m0c"), call("g"))
	return h
}

// NewRunner creates a runner holding a new original set for h.
func NewRunner(h *History) *Runner {
	r := &Runner{}
	r.sets = []*template.Template{r.NewSet(h)}
	return r
}

// StepNoWatch performs one op with recover but without the watchdog goroutine.
func (r *Runner) StepNoWatch(op Op) Result { return r.step(op) }

// DefinedByOps lists the template names (re)defined by definition ops ("{{define "x"}}" occurrences, New targets).
func DefinedByOps(defs []Op, root string) []string {
	seen := map[string]bool{}
	var out []string
	add := func(n string) {
		if n != "" && !seen[n] {
			seen[n] = true
			out = append(out, n)
		}
	}
	for _, d := range defs {
		if d.Kind == "new" {
			add(d.Target)
			continue
		}
		rest := d.Text
		for {
			k := strings.Index(rest, `{{define "`)
			if k < 0 {
				break
			}
			rest = rest[k+len(`{{define "`):]
			e := strings.IndexByte(rest, '"')
			if e < 0 {
				break
			}
			add(rest[:e])
		}
	}
	sort.Strings(out)
	return out
}

// DrawData draws a DataSpec.
func DrawData(t *rapid.T) *DataSpec {
	g := &genState{t: t}
	return g.data()
}
