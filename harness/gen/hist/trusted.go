package hist

import (
	"flag"

	"github.com/google/safehtml/template"
	tuc "github.com/google/safehtml/template/uncheckedconversions"
)

type strFlag string

func (s strFlag) String() string   { return string(s) }
func (s strFlag) Set(string) error { return nil }

var _ flag.Value = strFlag("")

func ttFromString(s string) template.TrustedTemplate {
	return tuc.TrustedTemplateFromStringKnownToSatisfyTypeContract(s)
}

func tsFromString(s string) template.TrustedSource {
	return template.TrustedSourceFromFlag(strFlag(s))
}
