// Package strs holds the hostile byte-string generators shared by the checks.
// Strings are assembled from weighted "alphabets of trouble" rather than from
// uniform bytes; every random choice goes through rapid.
package strs

import (
	"fmt"
	"strings"

	"pgregory.net/rapid"
)

var (
	Specials   = []string{"<", ">", "\"", "'", "&", "=", "/", "\\", "`", ";", ":", ",", "(", ")", "{", "}", "[", "]", "%", "#", "?", "@", "!", "*", "+", "-", ".", "_", "~", "|", "^", "$"}
	Whitespace = []string{"\t", "\n", "\f", "\r", " ", "\r\n", "\v"}
	Controls   = runes(0x0, 0x1, 0x8, 0xb, 0xe, 0x1b, 0x1f, 0x7f, 0x80, 0x85, 0x9f, 0xa0, 0xad)
	UniSpecial = runes(0x2028, 0x2029, 0xfeff, 0xfffd, 0xfdd0, 0xfdef, 0xfffe, 0xffff, 0x1fffe, 0x1ffff, 0x8fffe, 0x10fffe, 0x10ffff, 0x1f600, 0x10000, 0x301, 0x200b, 0x202e)
	BadUTF8    = []string{"\x80", "\xbf", "\xc0\x80", "\xc1\xbf", "\xe0\x80\x80", "\xed\xa0\x80", "\xed\xbf\xbf", "\xe2\x82", "\xf0\x9f\x98", "\xf0\x9f", "\xc3", "\xfe", "\xff", "\xf8\x88\x80\x80\x80", "\xf4\x90\x80\x80", "\xf0\x80\x80\x80", "\xef\xbf", "\xe2\x80"}
	CaseFold   = runes(0x130, 0x131, 0x17f, 0x212a, 0x212b, 0x1e9e, 0xdf)
	FullWidth  = runes(0xff1c, 0xff1e, 0xff0f, 0xff3c, 0xff1a, 0xff0e, 0xff02, 0xff07, 0x2215, 0x2044, 0x2024, 0x3002, 0xff61)
	CharRefs   = []string{"&lt;", "&gt;", "&amp;", "&quot;", "&#34;", "&#39;", "&#x3c;", "&#X3E;", "&#0;", "&#x0;", "&#9;", "&#10;", "&#13;", "&#x20;", "&Tab;", "&NewLine;", "&colon;", "&sol;", "&bsol;", "&quest;", "&num;", "&lpar;", "&rpar;", "&period;", "&apos;", "&nbsp;", "&#x110000;", "&#xD800;", "&#128;"}
	PartRefs   = []string{"&", "&l", "&lt", "&am", "&amp", "&quot", "&not", "&#", "&#x", "&#X", "&#x3", "&#6", "&#60", "&colon", "&;", "&#;", "&#x;", "&x"}
	Percents   = []string{"%2e", "%2E", "%2f", "%2F", "%5c", "%3a", "%3F", "%23", "%25", "%00", "%0a", "%0d", "%09", "%20", "%", "%2", "%z", "%zz", "%%", "%u002e", "%c0%ae"}
	Words      = []string{"a", "Z", "0", "9", "x", "ab", "Az09", "abc", "zz", "_", "-"}
)

func runes(cps ...rune) []string {
	var out []string
	for _, c := range cps {
		out = append(out, string(c))
	}
	return out
}

// classes lists the piece generators with weights (by repetition).
func classes(dict []string) []*rapid.Generator[string] {
	g := []*rapid.Generator[string]{
		rapid.SampledFrom(Specials), rapid.SampledFrom(Specials),
		rapid.SampledFrom(Whitespace),
		rapid.SampledFrom(Controls),
		rapid.SampledFrom(UniSpecial),
		rapid.SampledFrom(BadUTF8),
		rapid.SampledFrom(CaseFold),
		rapid.SampledFrom(FullWidth),
		rapid.SampledFrom(CharRefs),
		rapid.SampledFrom(PartRefs),
		rapid.SampledFrom(Percents),
		rapid.SampledFrom(Words), rapid.SampledFrom(Words),
		rapid.Custom(func(t *rapid.T) string { return string([]byte{rapid.Byte().Draw(t, "b")}) }),
		rapid.Custom(func(t *rapid.T) string { return string(rapid.Rune().Draw(t, "r")) }),
		rapid.Custom(func(t *rapid.T) string { return string(rune(rapid.IntRange(0, 0x10ffff).Draw(t, "cp"))) }),
	}
	g = append(g, Pad())
	if len(dict) > 0 {
		d := rapid.SampledFrom(dict)
		g = append(g, d, d, d, d)
	}
	return g
}

// PadLens are run lengths around the usual buffer/limit boundaries.
var PadLens = []int{2, 3, 7, 8, 9, 15, 16, 17, 31, 32, 33, 53, 54, 55, 63, 64, 65, 100, 127, 128, 129, 255, 256, 257, 511, 512, 513, 1023, 1024, 1025, 2048, 4095, 4096, 4097}

// PadUnits are the units repeated by Pad.
var PadUnits = []string{" ", "\t", "\n", "\r", "\f", "\x00", "\x01", "\x1f", "a", "A", "0", "/", ".", "%", "&", ";", ":", "<", "\"", "'", "-", "\xff", "\xc3\xa9", ",", "(", "\\"}

// Pad draws a long run of one unit whose length sits at a power-of-two (or other) boundary:
// defects that only show beyond a magic length need inputs that long.
func Pad() *rapid.Generator[string] {
	return rapid.Custom(func(t *rapid.T) string {
		u := rapid.SampledFrom(PadUnits).Draw(t, "padunit")
		n := rapid.SampledFrom(PadLens).Draw(t, "padlen")
		return strings.Repeat(u, n)
	})
}

// Piece draws one piece.
func Piece(dict []string) *rapid.Generator[string] { return rapid.OneOf(classes(dict)...) }

// Hostile draws a string of up to maxPieces pieces; dict adds property-specific words.
func Hostile(maxPieces int, dict []string) *rapid.Generator[string] {
	p := Piece(dict)
	return rapid.Custom(func(t *rapid.T) string {
		ps := rapid.SliceOfN(p, 0, maxPieces).Draw(t, "pieces")
		return strings.Join(ps, "")
	})
}

// From draws a string of up to maxPieces pieces taken only from the given alphabets.
func From(maxPieces int, alphabets ...[]string) *rapid.Generator[string] {
	var gs []*rapid.Generator[string]
	for _, a := range alphabets {
		gs = append(gs, rapid.SampledFrom(a))
	}
	p := rapid.OneOf(gs...)
	return rapid.Custom(func(t *rapid.T) string {
		return strings.Join(rapid.SliceOfN(p, 0, maxPieces).Draw(t, "pieces"), "")
	})
}

// CaseVariant draws a random ASCII case folding of w.
func CaseVariant(t *rapid.T, w string) string {
	b := []byte(w)
	for i, c := range b {
		if 'a' <= c && c <= 'z' && rapid.Bool().Draw(t, "up") {
			b[i] = c - 32
		}
	}
	return string(b)
}

// Mutate applies up to n edits (insert / replace / delete of one piece at a drawn byte position) to seed.
func Mutate(t *rapid.T, seed string, n int, dict []string) string {
	s := seed
	k := rapid.IntRange(0, n).Draw(t, "edits")
	for i := 0; i < k; i++ {
		pos := rapid.IntRange(0, len(s)).Draw(t, "pos")
		switch rapid.IntRange(0, 2).Draw(t, "op") {
		case 0:
			s = s[:pos] + Piece(dict).Draw(t, "ins") + s[pos:]
		case 1:
			if pos < len(s) {
				s = s[:pos] + Piece(dict).Draw(t, "rep") + s[pos+1:]
			}
		case 2:
			if pos < len(s) {
				s = s[:pos] + s[pos+1:]
			}
		}
	}
	return s
}

// Split cuts w into k+1 pieces at drawn positions (pieces may be empty).
func Split(t *rapid.T, w string, k int) []string {
	cuts := make([]int, k)
	for i := range cuts {
		cuts[i] = rapid.IntRange(0, len(w)).Draw(t, "cut")
	}
	// insertion sort
	for i := 1; i < len(cuts); i++ {
		for j := i; j > 0 && cuts[j] < cuts[j-1]; j-- {
			cuts[j], cuts[j-1] = cuts[j-1], cuts[j]
		}
	}
	out := make([]string, 0, k+1)
	prev := 0
	for _, c := range cuts {
		out = append(out, w[prev:c])
		prev = c
	}
	return append(out, w[prev:])
}

// HasAny reports whether s contains any byte of set.
func HasAny(s, set string) bool { return strings.ContainsAny(s, set) }

var namedRef = map[byte]string{'%': "&percnt;", '?': "&quest;", '#': "&num;", '/': "&sol;", ':': "&colon;", '.': "&period;", '\\': "&bsol;", '@': "&commat;", '&': "&amp;", '\t': "&Tab;", '\n': "&NewLine;", '<': "&lt;", '>': "&gt;", '"': "&quot;", '\'': "&apos;", '=': "&equals;", ';': "&semi;", ',': "&comma;", '(': "&lpar;", ')': "&rpar;", '+': "&plus;", '!': "&excl;", '$': "&dollar;", '*': "&ast;", '_': "&lowbar;", '-': "&hyphen;", '{': "&lbrace;", '}': "&rbrace;", '[': "&lbrack;", ']': "&rbrack;", '|': "&vert;", '^': "&Hat;", '`': "&grave;"}

// CharRefSpellings returns the ways c can be written as an HTML character reference
// (decimal, hex in both cases, zero-padded, named; with and without the semicolon).
func CharRefSpellings(c byte) []string {
	out := []string{fmt.Sprintf("&#%d;", c), fmt.Sprintf("&#x%x;", c), fmt.Sprintf("&#X%X;", c), fmt.Sprintf("&#%04d;", c), fmt.Sprintf("&#x%04x;", c), fmt.Sprintf("&#%d", c), fmt.Sprintf("&#x%x", c), fmt.Sprintf("&#%08d", c), fmt.Sprintf("&#%011d", c), fmt.Sprintf("&#x%07x", c), fmt.Sprintf("&#X%09X", c), fmt.Sprintf("&#%09d;", c)}
	if n, ok := namedRef[c]; ok {
		out = append(out, n)
	}
	return out
}

// AllCharRefSpellings returns the spellings of every byte of set.
func AllCharRefSpellings(set string) []string {
	var out []string
	for i := 0; i < len(set); i++ {
		out = append(out, CharRefSpellings(set[i])...)
	}
	return out
}
