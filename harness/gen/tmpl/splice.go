package tmpl

import (
	"fmt"
	"strings"

	"pgregory.net/rapid"
)

// Splice rewrites the main text of p: up to max times a short stretch of the static template text (possibly empty)
// is wrapped into a control structure, or a template node is inserted, at an arbitrary position - by preference
// inside a tag (after the first letters of a name, between name and '=', after '=', between attributes, inside a
// value). The reference renderer reads the result like any other template, so every spliced text is in the domain
// of the properties; the class of each position is recorded as a flag "splice:<class>".
func Splice(t *rapid.T, p *Prog, max int) {
	k := rapid.IntRange(1, max).Draw(t, "nsplices")
	for n := 0; n < k; n++ {
		spliceOnce(t, p)
	}
}

// position classes
func classify(s string, i int) string {
	// scan the static text up to i with a rough tag lexer
	inTag, quote := false, byte(0)
	afterEq := false
	nameStart := -1 // start of the current run of name characters inside a tag
	tagNameRun := false
	for j := 0; j < i; j++ {
		c := s[j]
		if strings.HasPrefix(s[j:], "{{") {
			if e := strings.Index(s[j:], "}}"); e >= 0 {
				j += e + 1
				continue
			}
		}
		switch {
		case quote != 0:
			if c == quote {
				quote = 0
			}
		case !inTag:
			if c == '<' && j+1 < len(s) && (isAlpha(s[j+1]) || s[j+1] == '/') {
				inTag, tagNameRun, nameStart, afterEq = true, true, j+1, false
			}
		case c == '>':
			inTag, nameStart = false, -1
		case c == '"' || c == '\'':
			if afterEq {
				quote = c
			}
			afterEq, nameStart = false, -1
		case c == '=':
			afterEq, nameStart, tagNameRun = true, -1, false
		case c == ' ' || c == '\t' || c == '\n' || c == '\f' || c == '\r':
			if nameStart >= 0 {
				tagNameRun = false
			}
			nameStart = -1
		case c == '/':
			if tagNameRun && j == nameStart {
				nameStart = j + 1 // "</"
			} else {
				if nameStart >= 0 {
					tagNameRun = false
				}
				nameStart = -1
			}
		default:
			if nameStart == -1 {
				nameStart = j
				if afterEq {
					// unquoted value
					afterEq = false
					nameStart = -2
				}
			}
		}
	}
	switch {
	case quote != 0:
		return "invalue"
	case !inTag:
		return "text"
	case nameStart == -2:
		return "unquoted"
	case afterEq:
		return "beforevalue"
	case nameStart >= 0 && tagNameRun:
		return "tagname"
	case nameStart >= 0:
		return "attrname"
	}
	return "tagspace"
}

func isAlpha(c byte) bool { return 'a' <= c && c <= 'z' || 'A' <= c && c <= 'Z' }

func spliceOnce(t *rapid.T, p *Prog) {
	s := p.Main
	// static positions: not inside {{...}}
	var all, inTag []int
	depth := 0
	tag := false
	for i := 0; i <= len(s); i++ {
		if i < len(s) && strings.HasPrefix(s[i:], "{{") {
			if depth == 0 {
				all = append(all, i)
				if tag {
					inTag = append(inTag, i)
				}
			}
			depth++
			i++
			continue
		}
		if i < len(s) && strings.HasPrefix(s[i:], "}}") && depth > 0 {
			depth--
			i++
			continue
		}
		if depth > 0 {
			continue
		}
		all = append(all, i)
		if tag {
			inTag = append(inTag, i)
		}
		if i < len(s) {
			if s[i] == '<' && i+1 < len(s) && (isAlpha(s[i+1]) || s[i+1] == '/') {
				tag = true
			} else if s[i] == '>' {
				tag = false
			}
		}
	}
	if len(all) == 0 {
		return
	}
	pool := all
	if len(inTag) > 0 && rapid.IntRange(0, 3).Draw(t, "intag") != 0 {
		pool = inTag
	}
	i := pool[rapid.IntRange(0, len(pool)-1).Draw(t, "pos")]
	// stretch: up to the next template node
	limit := len(s)
	if e := strings.Index(s[i:], "{{"); e >= 0 {
		limit = i + e
	}
	n := rapid.SampledFrom([]int{0, 0, 1, 1, 2, 3, 5, 8}).Draw(t, "len")
	if i+n > limit {
		n = limit - i
	}
	// keep UTF-8 sequences whole
	for i+n < len(s) && n > 0 && s[i+n]&0xC0 == 0x80 {
		n++
	}
	if i < len(s) && s[i]&0xC0 == 0x80 {
		return
	}
	stretch := s[i : i+n]
	alts := []string{"", " ", "\n", "x", "/", "=", "title", " title", " x=\"1\"", "-", ":", "&", ">", "\t"}
	var node string
	form := rapid.IntRange(0, 7).Draw(t, "form")
	switch form {
	case 0, 1:
		c := p.NCond
		p.NCond++
		body := stretch
		if n == 0 {
			body = rapid.SampledFrom(alts).Draw(t, "ins")
		}
		node = fmt.Sprintf("{{if $.C%d}}%s{{end}}", c, body)
	case 2, 3:
		c := p.NCond
		p.NCond++
		node = fmt.Sprintf("{{if $.C%d}}%s{{else}}%s{{end}}", c, stretch, rapid.SampledFrom(alts).Draw(t, "alt"))
	case 4:
		node = "{{/* c */}}" + stretch
	case 5:
		c := p.NCond
		p.NCond++
		node = fmt.Sprintf("{{if $.C%d}}{{end}}", c) + stretch
	case 6:
		w := p.NWith
		p.NWith++
		node = fmt.Sprintf("{{with $.W%d}}%s{{end}}", w, stretch)
	default:
		l := p.NList
		p.NList++
		body := stretch
		if n == 0 {
			body = rapid.SampledFrom(alts).Draw(t, "rins")
		}
		node = fmt.Sprintf("{{range $.L%d}}%s{{end}}", l, body)
	}
	cl := classify(s, i)
	flagAssembled(p, s[:i], node, s[i+n:])
	flagBoundary(p, s[:i], s[i:])
	if n > 0 {
		flagBoundary(p, s[:i+n], s[i+n:])
	}
	p.Main = s[:i] + node + s[i+n:]
	addFlag(p, "splice")
	addFlag(p, "splice:"+cl)
}

func addFlag(p *Prog, f string) {
	for _, x := range p.Flags {
		if x == f {
			return
		}
	}
	p.Flags = append(p.Flags, f)
}

// flagBoundary records what a template node between before and after (both static template text, after up to the
// next template node) means for the known-deviation zones.
func flagBoundary(p *Prog, before, after string) {
	flagBoundary1(p, before, after)
	// the same with the neighbouring template nodes looked through (they may render nothing)
	if b, a := staticOnly(before), staticOnly(after); b != before || a != after {
		flagBoundary1(p, b, a)
	}
}

// staticOnly removes the template nodes from a piece of template text.
func staticOnly(s string) string {
	var b strings.Builder
	for {
		i := strings.Index(s, "{{")
		if i < 0 {
			b.WriteString(s)
			return b.String()
		}
		b.WriteString(s[:i])
		j := strings.Index(s[i:], "}}")
		if j < 0 {
			return b.String()
		}
		s = s[i+j+2:]
	}
}

func flagBoundary1(p *Prog, before, after string) {
	if e := strings.Index(after, "{{"); e >= 0 {
		after = after[:e]
	}
	if lt := strings.LastIndexByte(before, '<'); lt >= 0 && !strings.Contains(before[lt:], ">") {
		tail := before[lt+1:]
		if tail == "" || tail[0] == '!' || tail[0] == '?' || tail[0] == '/' && (len(tail) == 1 || !isAlpha(tail[1])) {
			// a text node ending inside a tag-open, markup declaration, processing instruction or bogus end tag,
			// directly before a template node: the engine treats the '<' as text (class boundary-lt, generated on
			// purpose by the zones search)
			addFlag(p, "zone:boundary-lt")
		}
	}
	// the end of a comment split by the node: the engine does not see "-->" and goes on dropping the author's text as
	// comment content (same class as K-cmt: comment corner cases in which author markup is silently lost)
	for _, pat := range []string{"-->", "--!>"} {
		for cut := 1; cut < len(pat); cut++ {
			if strings.HasSuffix(before, pat[:cut]) && strings.HasPrefix(after, pat[cut:]) {
				addFlag(p, "zone:K-cmt")
			}
		}
	}
	// the end tag of a special element split by the node (anywhere from directly after its '<' on): the engine does not
	// recognise the end tag and goes on treating what follows as the element's body (known deviation K-endsplit,
	// harmless direction)
	low, rest := strings.ToLower(before), strings.ToLower(after)
	if lt := strings.LastIndex(low, "<"); lt >= 0 {
		part := low[lt:]
		for _, name := range []string{"script", "style", "title", "textarea"} {
			full := "</" + name
			if len(part) <= len(full) && strings.HasPrefix(full, part) && (len(part) >= 2 || strings.HasPrefix(rest, full[len(part):])) {
				addFlag(p, "zone:K-endsplit")
			}
		}
	}
}

// region mutation: a balanced stretch of the template text (it may hold template nodes) is wrapped into a control
// structure or moved into a helper template that is called in its place - optionally with a self-call that never
// runs, optionally called a second time somewhere else.

type spos struct {
	i, depth int
	inTag    bool
}

// scan lists the static positions of s with their nesting depth and, per depth, the positions of {{else}} nodes.
func scan(s string) (ps []spos, elses map[int][]int) {
	elses = map[int][]int{}
	depth, tag := 0, false
	for i := 0; i <= len(s); i++ {
		if i < len(s) && strings.HasPrefix(s[i:], "{{") {
			ps = append(ps, spos{i, depth, tag})
			e := strings.Index(s[i:], "}}")
			if e < 0 {
				return
			}
			a := strings.TrimLeft(strings.TrimSpace(strings.Trim(s[i+2:i+e], "-")), " ")
			switch {
			case strings.HasPrefix(a, "if "), strings.HasPrefix(a, "range "), strings.HasPrefix(a, "with "), strings.HasPrefix(a, "define "), strings.HasPrefix(a, "block "):
				depth++
			case a == "end":
				depth--
			case strings.HasPrefix(a, "else"):
				elses[depth] = append(elses[depth], i)
			}
			i += e + 1
			continue
		}
		ps = append(ps, spos{i, depth, tag})
		if i < len(s) {
			if s[i] == '<' && i+1 < len(s) && (isAlpha(s[i+1]) || s[i+1] == '/') {
				tag = true
			} else if s[i] == '>' {
				tag = false
			}
		}
	}
	return
}

// Region applies one region mutation to p.Main.
func Region(t *rapid.T, p *Prog) {
	s := p.Main
	ps, elses := scan(s)
	if len(ps) < 2 {
		return
	}
	var inTag []int
	for k, q := range ps {
		if q.inTag {
			inTag = append(inTag, k)
		}
	}
	a := rapid.IntRange(0, len(ps)-1).Draw(t, "rstart")
	if len(inTag) > 0 && rapid.IntRange(0, 2).Draw(t, "rintag") != 0 {
		a = inTag[rapid.IntRange(0, len(inTag)-1).Draw(t, "rstartintag")]
	}
	// candidate ends: same depth, never below it in between, no {{else}} of that depth in between, at most 80 bytes
	var ends []int
	for b := a + 1; b < len(ps) && ps[b].i-ps[a].i <= 80; b++ {
		if ps[b].depth < ps[a].depth {
			break
		}
		if ps[b].depth != ps[a].depth {
			continue
		}
		ok := true
		for _, e := range elses[ps[a].depth] {
			if e >= ps[a].i && e < ps[b].i {
				ok = false
			}
		}
		// the position must not sit in the middle of a UTF-8 sequence
		if ok && (ps[b].i >= len(s) || s[ps[b].i]&0xC0 != 0x80) {
			ends = append(ends, b)
		}
	}
	if len(ends) == 0 || (ps[a].i < len(s) && s[ps[a].i]&0xC0 == 0x80) {
		return
	}
	b := ends[rapid.IntRange(0, len(ends)-1).Draw(t, "rend")]
	i, j := ps[a].i, ps[b].i
	r := s[i:j]
	var node string
	op := rapid.SampledFrom([]string{"if", "ifelse", "range", "rangeelse", "with", "helper", "helper", "helperrec", "helpertwice"}).Draw(t, "rop")
	switch op {
	case "if":
		c := p.NCond
		p.NCond++
		node = fmt.Sprintf("{{if $.C%d}}%s{{end}}", c, r)
	case "ifelse":
		c := p.NCond
		p.NCond++
		node = fmt.Sprintf("{{if $.C%d}}%s{{else}}%s{{end}}", c, r, rapid.SampledFrom([]string{"", " ", "x", r}).Draw(t, "ralt"))
	case "range":
		l := p.NList
		p.NList++
		node = fmt.Sprintf("{{range $.L%d}}%s{{end}}", l, r)
	case "rangeelse":
		l := p.NList
		p.NList++
		node = fmt.Sprintf("{{range $.L%d}}%s{{else}}%s{{end}}", l, r, rapid.SampledFrom([]string{"", r, r, "x"}).Draw(t, "relse"))
	case "with":
		w := p.NWith
		p.NWith++
		node = fmt.Sprintf("{{with $.W%d}}%s{{end}}", w, r)
	default:
		h := len(p.Helpers)
		call := fmt.Sprintf(`{{template "h%d" $}}`, h)
		body := r
		if op == "helperrec" {
			// a self-call that never runs ($.Never is not in the data), at the start or at the end of the body
			self := "{{if $.Never}}" + call + "{{end}}"
			if rapid.Bool().Draw(t, "recfirst") {
				body = self + body
			} else {
				body += self
			}
		}
		p.Helpers = append(p.Helpers, body)
		node = call
		if op == "helpertwice" {
			// a second call somewhere else in the main text (most such programs are refused)
			k := ps[rapid.IntRange(0, len(ps)-1).Draw(t, "rsecond")].i
			if (k <= i || k >= j) && (k >= len(s) || s[k]&0xC0 != 0x80) {
				flagBoundary(p, s[:k], s[k:])
				if k >= j {
					s = s[:k] + call + s[k:]
				} else {
					s = s[:k] + call + s[k:]
					i, j = i+len(call), j+len(call)
				}
			}
		}
	}
	flagBoundary(p, s[:i], s[i:])
	flagBoundary(p, s[:j], s[j:])
	flagAssembled(p, s[:i], node, s[j:])
	p.Main = s[:i] + node + s[j:]
	addFlag(p, "splice")
	addFlag(p, "region:"+op)
	if strings.HasPrefix(op, "helper") {
		// a region moved into a helper may be rendered in another context than the one it was written for: what was
		// plain text in <title> or <textarea> (`<!-->`, `--!>`) is one of the comment corner cases of K-cmt elsewhere
		for _, pat := range []string{"<!-->", "<!--->", "--!>"} {
			if strings.Contains(r, pat) {
				addFlag(p, "zone:K-cmt")
			}
		}
	}
}

// flagAssembled: the static texts inside the inserted node (branch bodies), repeated up to twice (loop iterations),
// complete a comment end together with the text around the node: the same K-cmt zone as a split comment end.
func flagAssembled(p *Prog, before, node, after string) {
	// (other template nodes between the texts are looked through: they may all render nothing)
	before, after = staticOnly(before), staticOnly(after)
	var bodies []string
	rest := node
	for {
		a := strings.Index(rest, "}}")
		if a < 0 {
			break
		}
		rest = rest[a+2:]
		b := strings.Index(rest, "{{")
		if b < 0 {
			break
		}
		if b > 0 {
			bodies = append(bodies, rest[:b])
		}
		rest = rest[b:]
	}
	bt, ah := before, after
	if len(bt) > 3 {
		bt = bt[len(bt)-3:]
	}
	if len(ah) > 3 {
		ah = ah[:3]
	}
	for _, body := range bodies {
		for k := 1; k <= 3; k++ {
			j := bt + strings.Repeat(body, k) + ah
			for _, pat := range []string{"-->", "--!>"} {
				if strings.Contains(j, pat) && !strings.Contains(bt+ah, pat) {
					addFlag(p, "zone:K-cmt")
				}
			}
		}
	}
}
