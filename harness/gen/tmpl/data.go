package tmpl

import (
	"fmt"
	"strings"

	"pgregory.net/rapid"

	"verif/evid"
	"verif/gen/strs"
	"verif/tx"
)

// Val is one leaf value: a plain string (Type "") or a safe-type value.
type Val struct {
	Type string    `json:"type,omitempty"`
	S    evid.BStr `json:"s"`
}

// Data is the JSON-serialisable data of a program: one value per field, per condition, per list, per with.
type Data struct {
	V []Val  `json:"v"`
	C []bool `json:"c,omitempty"`
	L []int  `json:"l,omitempty"`
	W []bool `json:"w,omitempty"`
}

// Map builds the value passed to Execute.
func (d Data) Map() map[string]interface{} {
	m := map[string]interface{}{}
	for i, v := range d.V {
		m[fmt.Sprintf("V%d", i)] = tx.Typed(v.Type, string(v.S))
	}
	for i, c := range d.C {
		m[fmt.Sprintf("C%d", i)] = c
	}
	for i, n := range d.L {
		m[fmt.Sprintf("L%d", i)] = make([]int, n)
	}
	for i, w := range d.W {
		if w {
			m[fmt.Sprintf("W%d", i)] = "w"
		} else {
			m[fmt.Sprintf("W%d", i)] = ""
		}
	}
	return m
}

// Inert returns the same data with every non-empty untyped string leaf replaced by the placeholder.
// Enum-word fields keep their word (the placeholder would be refused), typed values are kept.
func (d Data) Inert(fields []Field) Data {
	out := Data{C: d.C, L: d.L, W: d.W}
	for i, v := range d.V {
		if v.Type == "" && v.S != "" && !(i < len(fields) && strings.HasPrefix(fields[i].Kind, "enum:")) {
			v.S = Placeholder
		}
		out.V = append(out.V, v)
	}
	return out
}

// AuthorInert is Inert with every safehtml.HTML value replaced by one without markup: the author relation
// compares the markup of the template text, and markup carried by a trusted value is not part of it (the engine
// escapes such a value where it believes to be inside an attribute, the reference renderer never does).
func (d Data) AuthorInert(fields []Field) Data {
	out := d.Inert(fields)
	for i, v := range out.V {
		if v.Type == "HTML" {
			v.S = "zq"
			out.V[i] = v
		}
	}
	return out
}

// Placeholder is the inert value: alphanumeric, starting with a digit.
const Placeholder = "7zq"

var HTMLDict = []string{"<", ">", "\"", "'", "&", "<b>", "</b>", "<script>", "</script>", "</title>", "</textarea>", "</TEXTAREA ", "</title\t>", "-->", "--!>", "<!--", "]]>", "<![CDATA[", " onx=1 ", "\" onx=\"1", "' onx='1", "` onx=`", "=", "/", "/>", "\x00", "\r", "\n", "\f", "\t", " ", "&lt;", "&#34", "&quot", "&amp;", "&#x22;", "<a href=\"x\">", "\xff", "\xc0\"", "\xe2\x80", "><"}
var URLDict = []string{"javascript:alert(1)", "JaVaScRiPt:alert(1)", "java\tscript:alert(1)", " javascript:alert(1)", "\x01javascript:alert(1)", "javascript&colon;alert(1)", "&#106;avascript:alert(1)", "vbscript:x", "data:text/html,<script>alert(1)</script>", "https://evil.test/x.js", "//evil.test/", "/\\evil.test", "/ok/path?a=b&c=d#f", "x y", "\"><script>", "' onx='", "..", "../..", "%2e%2e", "?a=b", "#f", "&b=2", "\\", "a.png 1x, javascript:x 2x", "a.png 2x, b.png 3x", "mailto:a@b", "about:blank"}

func typedContents(t *rapid.T, typ string) string {
	switch typ {
	case "HTML":
		return rapid.SampledFrom([]string{"zq", "<i>zq</i>", "<b>z</b>q", ""}).Draw(t, "html")
	case "Script":
		return rapid.SampledFrom([]string{"var zq=1;", "f(zq)", ""}).Draw(t, "script")
	case "Style":
		return rapid.SampledFrom([]string{"color:red;", "width:1px;height:2px;", ""}).Draw(t, "style")
	case "StyleSheet":
		return rapid.SampledFrom([]string{"p{color:red}", ".zq{}", ""}).Draw(t, "sheet")
	case "TrustedResourceURL":
		return rapid.SampledFrom([]string{"https://h/zq.js", "/zq/s.js", "//h/zq"}).Draw(t, "tru")
	case "URL":
		return rapid.SampledFrom([]string{"https://h/zq", "/zq", "mailto:zq@h"}).Draw(t, "url")
	case "Identifier":
		return rapid.SampledFrom([]string{"zq-1", "zq", "a_b"}).Draw(t, "ident")
	}
	return "zq"
}

// Bind draws hostile data for the fields of p.
func Bind(t *rapid.T, p *Prog) Data {
	var d Data
	for _, f := range p.Fields {
		var v Val
		switch {
		case f.Kind == "str", f.Kind == "rcdata", f.Kind == "urlpart":
			if rapid.IntRange(0, 5).Draw(t, "emptystr") == 0 {
				v.S = ""
			} else {
				v.S = evid.BStr(strs.Hostile(4, HTMLDict).Draw(t, "str"))
			}
		case f.Kind == "url", f.Kind == "urlset":
			switch rapid.IntRange(0, 3).Draw(t, "urlk") {
			case 0:
				v.S = evid.BStr(strs.Hostile(3, HTMLDict).Draw(t, "urlstr"))
			case 1:
				v.S = evid.BStr(strs.Mutate(t, rapid.SampledFrom(URLDict).Draw(t, "urlseed"), 2, HTMLDict))
			default:
				v.S = evid.BStr(rapid.SampledFrom(URLDict).Draw(t, "url"))
			}
		case strings.HasPrefix(f.Kind, "enum:"):
			words := strings.Split(f.Kind[5:], ",")
			if rapid.IntRange(0, 19).Draw(t, "badenum") == 0 {
				v.S = evid.BStr(strs.Hostile(2, HTMLDict).Draw(t, "enumstr"))
			} else {
				v.S = evid.BStr(rapid.SampledFrom(words).Draw(t, "word"))
			}
		case strings.HasPrefix(f.Kind, "typed:"):
			v.Type = f.Kind[6:]
			v.S = evid.BStr(typedContents(t, v.Type))
		default:
			v.S = evid.BStr(strs.Hostile(3, HTMLDict).Draw(t, "other"))
		}
		d.V = append(d.V, v)
	}
	for i := 0; i < p.NCond; i++ {
		d.C = append(d.C, rapid.Bool().Draw(t, "cond"))
	}
	for i := 0; i < p.NList; i++ {
		d.L = append(d.L, rapid.IntRange(0, 3).Draw(t, "len"))
	}
	for i := 0; i < p.NWith; i++ {
		d.W = append(d.W, rapid.Bool().Draw(t, "with"))
	}
	return d
}
