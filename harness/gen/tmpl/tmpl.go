// Package tmpl generates template programs (HTML markup with actions and
// control nodes, in many lexical variants) together with a description of the
// data fields they use. The generator tracks the HTML context it is writing in,
// so that most programs are accepted by the engine, and records classification
// flags (zones) computed from its own choices, never from the code under test.
package tmpl

import (
	"fmt"
	"strings"

	"pgregory.net/rapid"
)

// Field describes one data field `$.V<n>` of a program.
type Field struct {
	Kind string `json:"kind"` // str | url | urlset | enum:<w1,w2> | typed:<Type> | rcdata
	Ctx  string `json:"ctx"`  // where it is used (label)
}

// Prog is a generated template set: Main plus helper definitions.
type Prog struct {
	Main    string   `json:"main"`
	Helpers []string `json:"helpers,omitempty"` // bodies of helpers h0, h1, ...
	Fields  []Field  `json:"fields"`
	NCond   int      `json:"nconds"`
	NList   int      `json:"nlists"`
	NWith   int      `json:"nwiths"`
	Flags   []string `json:"flags,omitempty"`
}

// Text returns the whole template text (helper definitions first).
func (p *Prog) Text() string {
	var b strings.Builder
	for i, h := range p.Helpers {
		fmt.Fprintf(&b, `{{define "h%d"}}%s{{end}}`, i, h)
	}
	b.WriteString(p.Main)
	return b.String()
}

// Options steer the generator.
type Options struct {
	MaxDepth   int
	MaxItems   int
	Helpers    bool // allow balanced helper templates called from HTML text contexts
	URLBias    bool // prefer URL-carrying and code-carrying positions (C02)
	CommentsOK bool
	Weird      bool // include lexical oddities (CR in end tags, uppercase, odd whitespace)
	Zones      bool // also generate the constructs of the known-deviation zones (flagged "zone:<id>")
}

// DefaultOptions for C01.
var DefaultOptions = Options{MaxDepth: 3, MaxItems: 4, Helpers: true, CommentsOK: true, Weird: true}

type gen struct {
	t        *rapid.T
	o        Options
	p        *Prog
	depth    int
	inHelper bool
	inRange  int
}

// Generate draws a program.
func Generate(t *rapid.T, o Options) *Prog {
	g := &gen{t: t, o: o, p: &Prog{}}
	if o.Helpers && g.n(0, 3, "nhelpers") == 0 {
		nh := g.n(1, 2, "helpers")
		for i := 0; i < nh; i++ {
			g.inHelper = true
			var b strings.Builder
			g.content(&b, "div", 1)
			g.inHelper = false
			g.p.Helpers = append(g.p.Helpers, b.String())
		}
		g.flag("helpers")
	}
	var b strings.Builder
	if g.n(0, 5, "doctype") == 0 {
		// (a DOCTYPE ends at its first '>', whatever looks like a tag or a quoted string inside it)
		b.WriteString(g.pick("doctype", "<!DOCTYPE html>", "<!doctype html>", "<!DOCTYPE html PUBLIC \"-//W3C//DTD HTML 4.01//EN\">", "<!DocType html>\n", "<!DOCTYPE html>", "<!DOCTYPE <textarea>", "<!DOCTYPE html <p title=\">\">", "<!doctype <b x='>'>"))
	}
	g.content(&b, "", 0)
	g.p.Main = b.String()
	return g.p
}

func (g *gen) flag(f string) {
	for _, x := range g.p.Flags {
		if x == f {
			return
		}
	}
	g.p.Flags = append(g.p.Flags, f)
}

func (g *gen) n(lo, hi int, label string) int { return rapid.IntRange(lo, hi).Draw(g.t, label) }
func (g *gen) pick(label string, xs ...string) string {
	return rapid.SampledFrom(xs).Draw(g.t, label)
}
func (g *gen) coin(label string) bool { return rapid.Bool().Draw(g.t, label) }
func (g *gen) pickInt(label string, xs ...int) int {
	return rapid.SampledFrom(xs).Draw(g.t, label)
}

func (g *gen) field(kind, ctx string) int {
	g.p.Fields = append(g.p.Fields, Field{kind, ctx})
	return len(g.p.Fields) - 1
}

// action renders an action for field i with a drawn pipeline decoration.
func (g *gen) action(i int, allowHTMLPipe bool) string {
	ref := fmt.Sprintf("$.V%d", i)
	k := g.n(0, 11, "deco")
	if strings.HasPrefix(g.p.Fields[i].Kind, "typed:") && k <= 2 {
		// print / html would turn a safe-type value into a plain string
		k = 6
	}
	switch {
	case k == 0:
		return "{{" + ref + " | print}}"
	case k == 1:
		return "{{print " + ref + "}}"
	case k == 2 && allowHTMLPipe:
		return "{{" + ref + " | html}}"
	case k == 3:
		return "{{- " + ref + " -}}"
	case k == 4:
		return "{{/* c */}}{{" + ref + "}}"
	case k == 5:
		return "{{with $x := " + ref + "}}{{$x}}{{else}}{{" + ref + "}}{{end}}"
	case k == 6:
		return "{{ " + ref + " }}"
	}
	return "{{" + ref + "}}"
}

// ---------- tables ----------

var htmlContentElems = strings.Fields(`a abbr address article aside b bdi bdo big blockquote body button caption center cite code dd del details dfn dialog div dl dt em
fieldset figcaption figure font footer form h1 h2 h3 h4 h5 h6 header i ins kbd label legend li main mark menu nav ol p pre q s samp section small span strike strong sub summary sup
table tbody td tfoot th thead tr tt u ul var iframe noscript select option optgroup datalist output meter progress video audio canvas map`)

var voidElems = strings.Fields(`br hr img input wbr area col source track link`)

type attrSpec struct {
	name, class string
	elems       []string // nil = any HTML-content or void element
}

var attrSpecs = []attrSpec{
	{"title", "None", nil}, {"alt", "None", nil}, {"class", "None", nil}, {"lang", "None", nil}, {"value", "None", []string{"input", "button", "option", "li", "meter", "progress"}},
	{"placeholder", "None", []string{"input"}}, {"aria-label", "None", nil}, {"data-x", "None", nil}, {"data-foo-bar", "None", nil}, {"role", "None", nil}, {"type", "None", []string{"input", "button", "ol"}},
	{"width", "None", nil}, {"rel", "None", []string{"a", "area"}}, {"datetime", "None", []string{"del", "ins"}}, {"label", "None", []string{"option", "optgroup", "track"}},
	{"id", "Identifier", nil}, {"name", "Identifier", []string{"input", "button", "form", "select", "a", "img", "map", "iframe", "output", "fieldset"}}, {"for", "Identifier", []string{"label", "output"}}, {"aria-controls", "Identifier", nil}, {"list", "Identifier", []string{"input"}},
	{"style", "Style", nil},
	{"href", "TrustedResourceURLOrURL", []string{"a", "area"}}, {"src", "TrustedResourceURLOrURL", []string{"img", "audio", "video", "input", "source"}},
	{"action", "URL", []string{"form"}}, {"formaction", "URL", []string{"button", "input"}},
	{"srcset", "URLSet", []string{"img", "source"}},
	{"src", "TrustedResourceURL", []string{"iframe"}}, {"href", "TrustedResourceURL", []string{"div", "span", "p"}},
	{"srcdoc", "HTMLValOnly", []string{"iframe"}},
	{"dir", "enum:auto,ltr,rtl", nil}, {"target", "enum:_blank,_self", []string{"a", "area", "form"}}, {"loading", "enum:eager,lazy", []string{"img", "iframe"}},
}

func attrsFor(elem string) []attrSpec {
	var out []attrSpec
	for _, a := range attrSpecs {
		if a.elems == nil {
			out = append(out, a)
			continue
		}
		for _, e := range a.elems {
			if e == elem {
				out = append(out, a)
			}
		}
	}
	return out
}

var staticText = []string{"a", "b c", "Hello", " ", "\n", "\t", "x &amp; y", "&lt;b&gt;", "&", "& ", "a&b", "&#39;", "&quot;", "&copy", ">", "\"", "'", "1 < 2", "< ", "<3", "<=", "a<", "<>", "=", "/", "--", "->", "]]>", "é", "`", "&#x3c;x", "< /p>"}
var rcdataText = []string{"a", "b c", "<b>", "</b>", "<i>x</i>", "<!--", "-->", "<!-- x -->", "&amp;", "&lt;", "<", ">", "\"", "</titl", "</text", "< /title>", "</ textarea>", "<script>", "</div>"}
var scriptText = []string{"var a = 1;", "f(\"x\");", "if (a < b) {}", "a > b", "// c\n", "/* c */", "'</div>'", "x = '<b>'", "a && b", "let s = \"q\";", "\n"}
var styleText = []string{"p { color: red; }", "a > b { }", ".c:before { content: \"<\"; }", "/* c */", "\n", "@media x { }"}
var commentBody = []string{" c ", "x", " a - b ", "[if IE]>x<![endif]", " <b>t</b> ", " -- ", " --> <p", " \"q' ", " {{/* tc */}} ", "\n"}

var staticAttrVal = map[string][]string{
	"None":   {"a", "a b", "x&amp;y", "&quot;q&quot;", "it's", "1>0", "a=b", "", "é", "a\tb"},
	"URL":    {"/x", "/x/y?a=1&amp;b=2", "https://h/p", "#f", "x.html", "mailto:a@b", "//h/p", "", "?q=1", "./a/../b"},
	"enumd":  {"ltr", "rtl", "auto"},
	"enumt":  {"_blank", "_self"},
	"enuml":  {"lazy", "eager"},
	"Ident":  {"id1", "a-b", "x_y"},
	"Style":  {"color:red;", "width: 1px; height:2px;", ""},
	"URLSet": {"a.png 1x, b.png 2x", "/i.png"},
	"TRU":    {"/s.js", "https://h/s.js", "//h/x"},
	"HTML":   {"&lt;p&gt;x&lt;/p&gt;", "x"},
}

func staticFor(class string) []string {
	switch {
	case class == "None":
		return staticAttrVal["None"]
	case class == "URL", class == "TrustedResourceURLOrURL":
		return staticAttrVal["URL"]
	case class == "enum:auto,ltr,rtl":
		return staticAttrVal["enumd"]
	case class == "enum:_blank,_self":
		return staticAttrVal["enumt"]
	case class == "enum:eager,lazy":
		return staticAttrVal["enuml"]
	case class == "Identifier":
		return staticAttrVal["Ident"]
	case class == "Style":
		return staticAttrVal["Style"]
	case class == "URLSet":
		return staticAttrVal["URLSet"]
	case class == "TrustedResourceURL":
		return staticAttrVal["TRU"]
	case class == "HTMLValOnly":
		return staticAttrVal["HTML"]
	}
	return []string{"x"}
}

func kindFor(class string) string {
	switch {
	case class == "None":
		return "str"
	case class == "URL", class == "TrustedResourceURLOrURL":
		return "url"
	case class == "URLSet":
		return "urlset"
	case strings.HasPrefix(class, "enum:"):
		return class
	case class == "Identifier":
		return "typed:Identifier"
	case class == "Style":
		return "typed:Style"
	case class == "TrustedResourceURL":
		return "typed:TrustedResourceURL"
	case class == "HTMLValOnly":
		return "typed:HTML"
	}
	return "str"
}

// ---------- lexical helpers ----------

func (g *gen) spell(name string) string {
	if !g.o.Weird {
		return name
	}
	switch g.n(0, 5, "case") {
	case 0:
		return strings.ToUpper(name)
	case 1:
		b := []byte(name)
		for i := 0; i < len(b); i += 2 {
			if 'a' <= b[i] && b[i] <= 'z' {
				b[i] -= 32
			}
		}
		return string(b)
	}
	return name
}

func (g *gen) ws(label string) string {
	if !g.o.Weird {
		return " "
	}
	if g.n(0, 15, "fakews") == 0 {
		// bytes that are NOT white space for an HTML tokenizer but are easily mistaken for it: the template is
		// then a different (usually rejected) structure, and accepting it as if it were white space is a defect
		g.flag("fake-whitespace")
		return g.pick("fake", "\v", "\x00", "\x1c", "\x1f", "\u00a0", "\u2028", "\u3000", "\u0085", "\x08")
	}
	return g.pick(label, " ", " ", " ", "  ", "\t", "\n", "\f", "\r", "\r\n", " \n ")
}

// realWS: HTML white space only. Used after the names of special elements: a byte that is not white space there
// makes the browser's tag name longer than the engine's (known deviation in the harmless direction: the engine
// treats the element as special and only rewrites more), which is not what this search is about.
func (g *gen) realWS() string {
	if !g.o.Weird {
		return " "
	}
	return g.pick("realws", " ", " ", "\t", "\n", "\f", "\r", "\r\n")
}

func (g *gen) endTag(name string) string {
	tail := ">"
	if g.o.Weird {
		tail = g.pick("endtail", ">", ">", ">", " >", "\n>", "\t>", "\f>", "\r>", "/>", " x>", " a=\"b\">")
	}
	return "</" + g.spell(name) + tail
}

// ---------- content ----------

// content writes a sequence of items valid as children of parent ("" = top level).
func (g *gen) content(b *strings.Builder, parent string, depth int) {
	n := g.n(0, g.o.MaxItems, "items")
	for i := 0; i < n; i++ {
		g.item(b, parent, depth)
	}
}

func (g *gen) textChunk(b *strings.Builder) {
	s := g.pick("text", staticText...)
	b.WriteString(s)
	// never leave a text node that ends in a tag-open-like suffix directly before whatever follows:
	// close it with a harmless character (the boundary-lt class is generated separately)
	// (a trim marker of the next action may remove white space, so the closer is not white space)
	if t := strings.TrimRight(s, " \t\n"); strings.HasSuffix(t, "<") || strings.HasSuffix(t, "</") || strings.HasSuffix(t, "&") {
		b.WriteString(".")
	}
}

func (g *gen) item(b *strings.Builder, parent string, depth int) {
	max := 14
	if depth >= g.o.MaxDepth {
		max = 5
	}
	switch k := g.n(0, max, "item"); {
	case k <= 1:
		g.textChunk(b)
	case k <= 4:
		// action in HTML text
		if g.n(0, 9, "typedhtml") == 0 {
			b.WriteString(g.action(g.field("typed:HTML", "text:"+parent), true))
		} else {
			b.WriteString(g.action(g.field("str", "text:"+parent), true))
		}
	case k == 5:
		if g.o.CommentsOK && g.o.Zones && g.n(0, 3, "czone") == 0 {
			// comment corner cases: ended early for a browser (abrupt closing, --!>) but not for the engine
			b.WriteString("<!--" + g.pick("czbody", ">", "->", ">x<b>y</b>", "-><i>z</i>", "a--!>b<u>c</u>", "--!><p>", "a--!>") + "-->")
			g.flag("zone:K-cmt")
		} else if g.o.CommentsOK {
			b.WriteString("<!--" + g.pick("cbody", commentBody...) + "-->")
			g.flag("comment")
		} else {
			g.textChunk(b)
		}
	case k <= 8:
		g.element(b, depth)
	case k == 9:
		g.special(b)
	case k == 10:
		g.control(b, func(bb *strings.Builder) { g.content(bb, parent, depth+1) })
	case k == 14 && g.o.Zones && g.n(0, 1, "zonepick") == 0:
		g.zoneItem(b, parent)
	case k == 14:
		g.openByControl(b)
	case k == 11:
		if len(g.p.Helpers) > 0 && !g.inHelper {
			fmt.Fprintf(b, `{{template "h%d" $}}`, g.n(0, len(g.p.Helpers)-1, "callee"))
		} else {
			g.textChunk(b)
		}
	default:
		g.voidElem(b)
	}
}

// control wraps body in if / range / with (with optional else).
func (g *gen) control(b *strings.Builder, body func(*strings.Builder)) {
	switch g.n(0, 5, "ctl") {
	case 0, 1, 2:
		c := g.p.NCond
		g.p.NCond++
		fmt.Fprintf(b, "{{if $.C%d}}", c)
		body(b)
		if g.coin("else") {
			if g.n(0, 3, "elseif") == 0 {
				c2 := g.p.NCond
				g.p.NCond++
				fmt.Fprintf(b, "{{else if $.C%d}}", c2)
				body(b)
			}
			b.WriteString("{{else}}")
			body(b)
		}
		b.WriteString("{{end}}")
		g.flag("if")
	case 3, 4:
		l := g.p.NList
		g.p.NList++
		fmt.Fprintf(b, "{{range $.L%d}}", l)
		g.inRange++
		defer func() { g.inRange-- }()
		if g.n(0, 7, "loopexit") == 0 {
			// break / continue leave or restart the loop body in whatever HTML context they sit (rejected by the
			// engine today; naive support would be unsound)
			c := g.p.NCond
			g.p.NCond++
			fmt.Fprintf(b, "{{if $.C%d}}{{%s}}{{end}}", c, g.pick("exit", "break", "continue"))
			g.flag("break-continue")
		}
		body(b)
		if g.n(0, 3, "relse") == 0 {
			b.WriteString("{{else}}")
			body(b)
		}
		b.WriteString("{{end}}")
		g.flag("range")
	default:
		w := g.p.NWith
		g.p.NWith++
		fmt.Fprintf(b, "{{with $.W%d}}", w)
		body(b)
		if g.coin("welse") {
			b.WriteString("{{else}}")
			body(b)
		}
		b.WriteString("{{end}}")
		g.flag("with")
	}
}

// zoneItem writes one construct of a known-deviation zone.
func (g *gen) zoneItem(b *strings.Builder, parent string) {
	switch g.n(0, 4, "zone") {
	case 4:
		// foreign content: inside svg / math a browser's tree builder does not switch the tokenizer for title,
		// style, script ... the way it does in HTML content, and CDATA sections exist; the engine knows none of this
		root := g.pick("foreign", "svg", "math")
		b.WriteString("<" + root + ">")
		n := g.n(1, 3, "fitems")
		for i := 0; i < n; i++ {
			switch g.n(0, 4, "fk") {
			case 0:
				inner := g.pick("finner", "title", "textarea", "style", "desc")
				b.WriteString("<" + inner + ">" + g.pick("ftext", "a", "<b>x</b>", "a<i>") + g.action(g.field("rcdata", "rcdata:"+inner), true) + "</" + inner + ">")
			case 1:
				b.WriteString("<![CDATA[" + g.pick("cdata", "x", "<b>y</b>", "a]]b") + "]]>")
			case 2:
				b.WriteString("<circle r=\"1\"/><path d=\"M0 0\"></path>")
			case 3:
				b.WriteString("<foreignObject><p>" + g.action(g.field("str", "text:p"), true) + "</p></foreignObject>")
			default:
				g.textChunk(b)
			}
		}
		b.WriteString("</" + root + ">")
		g.flag("zone:K-foreign")
	case 0:
		// title / textarea nested in an element that browsers tokenize as raw text but the engine does not model
		outer := g.pick("rawouter", "iframe", "noscript", "xmp", "noembed", "noframes")
		inner := g.pick("rawinner", "title", "textarea")
		b.WriteString("<" + outer + "><" + inner + ">" + g.pick("rawtext", "a", "</"+outer+">", "<b>x", "x</"+outer+"><i>") + g.action(g.field("rcdata", "rcdata:"+inner), true) + "</" + inner + "></" + outer + ">")
		g.flag("zone:K-rawnest")
	case 1:
		// bogus comments: '<' followed by '/', '!' or '?' and a non-letter; the engine rewrites the '<' to text
		b.WriteString(g.pick("bogus", "</ x>", "<?php x ?>", "<!x>", "<!-x->", "</ x <b>y</b>>", "<?a <i>b</i>>", "<!DOCTYP x>", "</>") + g.pick("afterbogus", "", "t", "<u>v</u>"))
		g.flag("zone:K-bogus")
	case 2:
		// a '<' (or '</', '<!', '<?') directly before an action: text for the engine, tag/bogus comment for a tokenizer
		b.WriteString(g.pick("blt", "<", "</", "<!", "<?", "a<", "<!-") + g.action(g.field("str", "text:boundary-lt"), false) + g.pick("afterblt", ">", " x>", "", "->"))
		g.flag("zone:boundary-lt")
	default:
		// a byte that is not HTML white space directly after the name of a special element
		name := g.pick("tnelem", "textarea", "title", "script", "style")
		fake := g.pick("tnfake", "\v", "\x00", "\x1f", ".", "\u00a0")
		switch name {
		case "textarea", "title":
			b.WriteString("<" + name + fake + "x=\"1\">" + g.pick("rtext2", "<b>t</b>", "a") + g.action(g.field("rcdata", "rcdata:"+name), true) + "</" + name + ">")
		case "script":
			b.WriteString("<" + name + fake + "x>var a = 1;</" + name + ">")
		default:
			b.WriteString("<" + name + fake + "x>p{}</" + name + ">")
		}
		g.flag("zone:K-tagname")
	}
}

// openByControl: a control structure whose branches each open the same construct (a quoted attribute value, a tag)
// and leave it open; the text after {{end}} completes it. With if / with the engine joins the branch contexts and
// accepts; with range the loop re-entry check must refuse (the second iteration would start inside the construct).
func (g *gen) openByControl(b *strings.Builder) {
	elem := g.pick("oelem", "li", "b", "span", "p", "div", "a")
	q := g.pick("oquote", `"`, `'`)
	shape := g.n(0, 2, "oshape")
	open := func(bb *strings.Builder) {
		switch shape {
		case 0:
			bb.WriteString("<" + g.spell(elem) + " title=" + q)
		case 1:
			bb.WriteString("<" + g.spell(elem) + " ")
		default:
			bb.WriteString("<" + g.spell(elem) + " class=" + q + "c ")
		}
	}
	g.control(b, open)
	switch shape {
	case 0, 2:
		b.WriteString(g.action(g.field("str", "attr:None:"+elem+".openctl"), true) + q + ">")
	default:
		b.WriteString("title=" + q + g.action(g.field("str", "attr:None:"+elem+".openctl"), true) + q + ">")
	}
	g.textChunk(b)
	b.WriteString("</" + elem + ">")
	g.flag("open-by-control")
}

func (g *gen) element(b *strings.Builder, depth int) {
	name := g.pick("elem", htmlContentElems...)
	b.WriteString("<" + g.spell(name))
	g.attrs(b, name)
	if g.o.Weird && g.n(0, 9, "selfclose") == 0 {
		b.WriteString("/")
	}
	b.WriteString(">")
	if name == "iframe" || name == "noscript" {
		// browsers may read the content as raw text: keep it to text and actions (no nested special elements)
		if g.coin("rawtextchild") {
			g.textChunk(b)
		}
		if g.coin("rawaction") {
			b.WriteString(g.action(g.field("str", "text:"+name), true))
		}
	} else {
		g.content(b, name, depth+1)
	}
	if name == "iframe" || name == "noscript" || g.n(0, 11, "omitend") != 0 {
		b.WriteString(g.endTag(name))
	}
}

func (g *gen) voidElem(b *strings.Builder) {
	name := g.pick("void", voidElems...)
	b.WriteString("<" + g.spell(name))
	g.attrs(b, name)
	b.WriteString(g.pick("voidend", ">", ">", "/>", " />", " >"))
}

// special writes title / textarea / script / style elements.
func (g *gen) special(b *strings.Builder) {
	name := g.pick("special", "title", "textarea", "textarea", "script", "style")
	b.WriteString("<" + g.spell(name))
	if name == "textarea" && g.coin("taattr") {
		b.WriteString(g.realWS() + "rows=\"2\"")
	}
	if name == "script" && g.n(0, 3, "stype") == 0 {
		b.WriteString(g.realWS() + "type=\"" + g.pick("scripttype", "text/javascript", "module", "application/json", "text/plain") + "\"")
	}
	b.WriteString(">")
	n := g.n(0, 3, "sitems")
	if g.n(0, 19, "longrun") == 0 {
		// letters whose lower-case form is longer in UTF-8, or invalid bytes, in bulk: index arithmetic on a
		// case-folded copy of the text goes wrong only beyond some length
		unit := g.pick("lunit", string(rune(0x23a)), string(rune(0x23e)), "\xff", string(rune(0x130)), string(rune(0x212a)))
		b.WriteString(strings.Repeat(unit, g.pickInt("lrun", 1, 8, 25, 40, 100, 300)))
		g.flag("long-run-in-special")
	}
	for i := 0; i < n; i++ {
		switch name {
		case "title", "textarea":
			switch g.n(0, 3, "rk") {
			case 0, 1:
				b.WriteString(g.pick("rtext", rcdataText...))
				g.flag("rcdata-static")
			case 2:
				b.WriteString(g.action(g.field("rcdata", "rcdata:"+name), true))
			default:
				g.control(b, func(bb *strings.Builder) {
					bb.WriteString(g.pick("rtext", rcdataText...))
					bb.WriteString(g.action(g.field("rcdata", "rcdata:"+name), true))
				})
			}
		case "script":
			if g.n(0, 2, "sk") == 0 {
				b.WriteString(g.action(g.field("typed:Script", "script"), false))
			} else {
				b.WriteString(g.pick("stext", scriptText...))
			}
		case "style":
			if g.n(0, 2, "sk") == 0 {
				b.WriteString(g.action(g.field("typed:StyleSheet", "style"), false))
			} else {
				b.WriteString(g.pick("sttext", styleText...))
			}
		}
	}
	b.WriteString(g.endTag(name))
	g.flag("special:" + name)
}

// attrs writes 0-3 attributes for elem.
func (g *gen) attrs(b *strings.Builder, elem string) {
	specs := attrsFor(elem)
	n := g.n(0, 3, "nattrs")
	used := map[string]bool{}
	for i := 0; i < n; i++ {
		a := specs[g.n(0, len(specs)-1, "attr")]
		if g.o.URLBias {
			// prefer URL-carrying attributes when the element has any
			for tries := 0; tries < 3 && !(strings.Contains(a.class, "URL")); tries++ {
				a = specs[g.n(0, len(specs)-1, "attr")]
			}
		}
		if used[a.name] {
			continue
		}
		used[a.name] = true
		one := func(bb *strings.Builder) { g.attr(bb, elem, a) }
		if g.n(0, 7, "condattr") == 0 {
			g.control(b, one)
			g.flag("conditional-attribute")
		} else {
			one(b)
		}
		if g.inRange > 0 && g.n(0, 5, "tagexit") == 0 {
			c := g.p.NCond
			g.p.NCond++
			fmt.Fprintf(b, "{{if $.C%d}}{{%s}}{{end}}", c, g.pick("exit", "break", "continue"))
			g.flag("break-continue-in-tag")
		}
	}
	if g.o.Weird && g.n(0, 7, "trailws") == 0 {
		b.WriteString(g.ws("ws"))
	}
}

func (g *gen) attr(b *strings.Builder, elem string, a attrSpec) {
	b.WriteString(g.ws("ws") + g.spell(a.name))
	switch g.n(0, 9, "attrshape") {
	case 0:
		// no value
		return
	case 1:
		// unquoted static value (no action allowed there)
		v := g.pick("uqval", "x", "a-b", "1", "/p/q", "a&amp;b", "é")
		if strings.HasPrefix(a.class, "enum:") {
			v = strings.Split(a.class[5:], ",")[0]
		}
		b.WriteString(g.eq() + v)
		g.flag("unquoted-static")
		return
	}
	q := g.pick("quote", `"`, `"`, `'`)
	b.WriteString(g.eq() + q)
	g.attrValue(b, elem, a, q)
	b.WriteString(q)
}

func (g *gen) eq() string {
	if !g.o.Weird {
		return "="
	}
	if g.n(0, 19, "fakeeq") == 0 {
		// a byte that is not HTML white space next to the '=': after it the value is unquoted for a tokenizer even
		// if a quote follows, before it the byte belongs to the attribute name
		g.flag("fake-whitespace")
		f := g.pick("fakeeqws", "\v", "\x00", "\x1f", "\u00a0", "\x08")
		if g.coin("fakeeqside") {
			return "=" + f
		}
		return f + "="
	}
	return g.pick("eq", "=", "=", "=", " =", "= ", " = ", "=\n", "\t=")
}

func clean(s, q string) string { return strings.ReplaceAll(s, q, "") }

func (g *gen) attrValue(b *strings.Builder, elem string, a attrSpec, q string) {
	kind := kindFor(a.class)
	ctx := "attr:" + a.class + ":" + elem + "." + a.name
	switch g.n(0, 9, "valshape") {
	case 0, 1:
		// static only
		b.WriteString(clean(g.pick("sval", staticFor(a.class)...), q))
	case 2, 3, 4, 5:
		// one action, whole value
		b.WriteString(g.action(g.field(kind, ctx), true))
	case 6:
		// static prefix + action (+ suffix) where the class allows it
		switch {
		case a.class == "None":
			b.WriteString(clean(g.pick("pre", "a ", "x", "n=", "&amp;"), q) + g.action(g.field("str", ctx), true) + clean(g.pick("suf", "", " b", "!"), q))
		case a.class == "URL" || a.class == "TrustedResourceURLOrURL":
			pre := g.pick("upre", "/x/", "/x?q=", "https://h/p/", "/p#", "https://h/?a=1&amp;b=", "/a.")
			b.WriteString(pre + g.action(g.field("urlpart", ctx+":after:"+pre), true) + g.pick("usuf", "", "/s", "&amp;z=1"))
			g.flag("url-prefix")
		case a.class == "TrustedResourceURL":
			pre := g.pick("tpre", "/s/", "https://h/s/", "//h/s?v=")
			b.WriteString(pre + g.action(g.field("urlpart", ctx+":after:"+pre), true) + g.pick("tsuf", "", ".js"))
			g.flag("tru-prefix")
		default:
			b.WriteString(g.action(g.field(kind, ctx), true))
		}
	case 7:
		// two actions where every piece is sanitized on its own (None class), else one
		if a.class == "None" {
			b.WriteString(g.action(g.field("str", ctx), true) + clean(g.pick("mid", " ", "-", "", "&amp;"), q) + g.action(g.field("str", ctx), true))
		} else {
			b.WriteString(g.action(g.field(kind, ctx), true))
		}
	case 8:
		// conditional whole value
		g.control(b, func(bb *strings.Builder) {
			if a.class == "None" && g.coin("condstatic") {
				bb.WriteString(clean(g.pick("sval", staticFor(a.class)...), q))
			} else {
				bb.WriteString(g.action(g.field(kind, ctx), true))
			}
		})
		g.flag("conditional-value")
	default:
		// conditional static suffix after an action (None) / plain action
		b.WriteString(g.action(g.field(kind, ctx), true))
		if a.class == "None" {
			g.control(b, func(bb *strings.Builder) { bb.WriteString(clean(g.pick("sval", staticFor("None")...), q)) })
		}
	}
}
