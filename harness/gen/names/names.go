// Package names embeds the element and attribute name universes used by C04 and the template generators.
package names

import "strings"

func f(s string) []string { return strings.Fields(s) }

// HTMLElements: current and obsolete HTML elements.
var HTMLElements = f(`a abbr acronym address applet area article aside audio b base basefont bdi bdo bgsound big blink blockquote body br button
canvas caption center cite code col colgroup command content data datalist dd del details dfn dialog dir div dl dt element em embed
fieldset figcaption figure font footer form frame frameset h1 h2 h3 h4 h5 h6 head header hgroup hr html i iframe image img input ins isindex
kbd keygen label legend li link listing main map mark marquee math menu menuitem meta meter multicol nav nextid nobr noembed noframes noscript
object ol optgroup option output p param picture plaintext portal pre progress q rb rp rt rtc ruby s samp script search section select selectedcontent shadow slot
small source spacer span strike strong style sub summary sup svg table tbody td template textarea tfoot th thead time title tr track tt u ul var video wbr xmp`)

// SVGElements (SVG 1.1 / 2).
var SVGElements = f(`animate animateMotion animateTransform circle clipPath defs desc discard ellipse feBlend feColorMatrix feComponentTransfer feComposite
feConvolveMatrix feDiffuseLighting feDisplacementMap feDistantLight feDropShadow feFlood feFuncA feFuncB feFuncG feFuncR feGaussianBlur feImage feMerge feMergeNode
feMorphology feOffset fePointLight feSpecularLighting feSpotLight feTile feTurbulence filter foreignObject g handler image line linearGradient listener marker mask metadata
mpath path pattern polygon polyline radialGradient rect set stop switch symbol text textPath tspan use view altGlyph cursor font-face glyph hkern vkern tref`)

// MathMLElements.
var MathMLElements = f(`annotation annotation-xml maction maligngroup malignmark menclose merror mfenced mfrac mglyph mi mlabeledtr mlongdiv mmultiscripts mn mo mover mpadded
mphantom mprescripts mroot mrow ms mscarries mscarry msgroup msline mspace msqrt msrow mstack mstyle msub msubsup msup mtable mtd mtext mtr munder munderover none semantics`)

// CustomElements: custom-element and namespaced shapes (well-formed for both the engine and a tokenizer).
var CustomElements = f(`x-foo my-element a-b svg:a xlink:href x-script script-x style-x my-title x1 h7 a1 b2 font-face-src`)

// Attributes: HTML global and element-specific attributes, legacy attributes, ARIA, SVG and MathML attributes.
var Attributes = f(`abbr accept accept-charset accesskey action align alink allow allowfullscreen allowpaymentrequest alt archive as async attributionsrc autocapitalize autocomplete autocorrect
autofocus autoplay axis background behavior bgcolor blocking border bordercolor bottommargin capture cellpadding cellspacing challenge char charoff charset checked cite class classid clear
closedby code codebase codetype color cols colspan command commandfor compact content contenteditable contextmenu controls controlslist coords crossorigin csp data datetime declare decoding default defer dir direction
dirname disabled disablepictureinpicture disableremoteplayback download draggable elementtiming enctype enterkeyhint exportparts face fetchpriority for form formaction formenctype formmethod
formnovalidate formtarget frame frameborder headers height hidden high href hreflang hspace http-equiv icon id imagesizes imagesrcset incremental inert inputmode integrity is ismap
itemid itemprop itemref itemscope itemtype keytype kind label lang language leftmargin link list loading longdesc loop low lowsrc manifest marginheight marginwidth max maxlength
media method min minlength multiple muted name nohref nomodule nonce noresize noshade novalidate nowrap object open optimum part pattern ping placeholder playsinline popover popovertarget
popovertargetaction poster preload profile prompt radiogroup readonly referrerpolicy rel required rev reversed rightmargin role rows rowspan rules sandbox scheme scope scrollamount scrolldelay
scrolling seamless selected shadowroot shadowrootmode shadowrootdelegatesfocus shape size sizes slot span spellcheck src srcdoc srclang srcset standby start step style summary tabindex target text title topmargin
translate truespeed type typemustmatch usemap valign value valuetype version virtualkeyboardpolicy vlink vspace width wrap writingsuggestions xmlns
aria-activedescendant aria-atomic aria-autocomplete aria-braillelabel aria-brailleroledescription aria-busy aria-checked aria-colcount aria-colindex aria-colindextext aria-colspan aria-controls aria-current aria-describedby
aria-description aria-details aria-disabled aria-dropeffect aria-errormessage aria-expanded aria-flowto aria-grabbed aria-haspopup aria-hidden aria-invalid aria-keyshortcuts aria-label
aria-labelledby aria-level aria-live aria-modal aria-multiline aria-multiselectable aria-orientation aria-owns aria-placeholder aria-posinset aria-pressed aria-readonly aria-relevant
aria-required aria-roledescription aria-rowcount aria-rowindex aria-rowindextext aria-rowspan aria-selected aria-setsize aria-sort aria-valuemax aria-valuemin aria-valuenow aria-valuetext
xlink:href xlink:title xlink:show xlink:actuate xlink:role xlink:arcrole xlink:type xml:base xml:lang xml:space xmlns:xlink
attributeName attributeType begin by calcMode clip-path clip-rule cx cy d dur dx dy end fill fill-opacity fill-rule filter from fx fy gradientTransform gradientUnits in in2 k1 keyTimes keySplines
marker-end marker-mid marker-start mask offset opacity operator order pathLength patternTransform points preserveAspectRatio r repeatCount restart result rotate rx ry stdDeviation stop-color
stroke stroke-dasharray stroke-width systemLanguage text-anchor to transform values viewBox x x1 x2 y y1 y2 z requiredExtensions
actiontype definitionURL displaystyle encoding mathbackground mathcolor mathsize mathvariant scriptlevel selection altimg
formaction-x xhref hrefx data datasrc datafld dataformatas dynsrc`)

// EventHandlers: on* attributes.
var EventHandlers = f(`onabort onafterprint onanimationend onanimationiteration onanimationstart onauxclick onbeforecopy onbeforecut onbeforeinput onbeforematch onbeforepaste onbeforeprint onbeforetoggle onbeforeunload
onbegin onblur oncancel oncanplay oncanplaythrough onchange onclick onclose oncontextlost oncontextmenu oncontextrestored oncopy oncuechange oncut ondblclick ondrag ondragend ondragenter
ondragleave ondragover ondragstart ondrop ondurationchange onemptied onend onended onerror onfocus onfocusin onfocusout onformdata onfullscreenchange ongotpointercapture onhashchange oninput oninvalid
onkeydown onkeypress onkeyup onlanguagechange onload onloadeddata onloadedmetadata onloadstart onlostpointercapture onmessage onmessageerror onmousedown onmouseenter onmouseleave onmousemove onmouseout
onmouseover onmouseup onmousewheel onoffline ononline onpagehide onpageshow onpaste onpause onplay onplaying onpointercancel onpointerdown onpointerenter onpointerleave onpointermove onpointerout
onpointerover onpointerrawupdate onpointerup onpopstate onprogress onratechange onrejectionhandled onrepeat onreset onresize onscroll onscrollend onsearch onsecuritypolicyviolation onseeked onseeking
onselect onselectionchange onselectstart onslotchange onstalled onstorage onsubmit onsuspend ontimeupdate ontoggle ontouchcancel ontouchend ontouchmove ontouchstart ontransitioncancel ontransitionend
ontransitionrun ontransitionstart onunhandledrejection onunload onvolumechange onwaiting onwebkitanimationend onwheel on onx`)

// DataShapes: data-* names, valid and near misses.
var DataShapes = f(`data-a data-foo data-foo-bar data-_x data-a1 data-a_b data- data--x data-1 data-1a xdata-a data-a.b DATA-A Data-Foo data-A data-é data-a:b datadata-a a-data-b
data-a- data-_ data-onclick data-href data-src data-style`)

// VoidElements as a browser knows them.
var VoidElements = map[string]bool{"area": true, "base": true, "basefont": true, "bgsound": true, "br": true, "col": true, "embed": true, "frame": true, "hr": true, "img": true, "input": true, "keygen": true, "link": true, "meta": true, "param": true, "source": true, "track": true, "wbr": true}

// CaseVariants returns lower, upper and a mixed-case spelling of n.
func CaseVariants(n string) []string {
	up := strings.ToUpper(n)
	b := []byte(strings.ToLower(n))
	for i := 0; i < len(b); i += 2 {
		if 'a' <= b[i] && b[i] <= 'z' {
			b[i] -= 32
		}
	}
	out := []string{strings.ToLower(n)}
	if up != out[0] {
		out = append(out, up, string(b))
	}
	// letters that Unicode case mapping folds to ASCII (KELVIN SIGN -> k, LONG S folds to s): an HTML parser
	// lower-cases ASCII only, so these are other, unknown names (not as first character: "<" followed by a
	// non-ASCII character is text, not a tag)
	if i := strings.IndexByte(out[0][1:], 'k'); i >= 0 {
		out = append(out, out[0][:i+1]+string(rune(0x212a))+out[0][i+2:])
	}
	if i := strings.IndexByte(out[0][1:], 's'); i >= 0 {
		out = append(out, out[0][:i+1]+string(rune(0x17f))+out[0][i+2:])
	}
	return out
}
