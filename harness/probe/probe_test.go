package probe

import (
	"bytes"
	"fmt"
	"testing"

	"github.com/google/safehtml/template"
	"verif/tx"
)

func run(text string, data interface{}) (s string) {
	defer func() {
		if r := recover(); r != nil {
			s = fmt.Sprintf("PANIC: %v", r)
		}
	}()
	out, perr, xerr := tx.Run(text, data)
	return fmt.Sprintf("out=%q perr=%v xerr=%v", out, perr, xerr)
}

func TestProbe(t *testing.T) {
	fmt.Println("F-break:", run(`{{range .L}}{{break}}{{end}}`, map[string]interface{}{"L": []int{1}}))
	fmt.Println("F-break2:", run(`{{range .L}}{{if .}}{{continue}}{{end}}x{{end}}`, map[string]interface{}{"L": []int{1}}))
	fmt.Println("F-cr:", run("<textarea>a</textarea\r><b title={{.V}}>", map[string]interface{}{"V": "x onclick=alert(1)"}))
	fmt.Println("F-cr2:", run("<title>a</title\r>{{.V}}", map[string]interface{}{"V": "<script>alert(1)</script>"}))
	fmt.Println("F-ambig:", run(`<a href="{{if .C}}{{else}}java{{end}}{{.V}}">`, map[string]interface{}{"C": false, "V": "script:alert(1)"}))
	fmt.Println("F-ambig-mirror:", run(`<a href="{{if .C}}java{{else}}{{end}}{{.V}}">`, map[string]interface{}{"C": true, "V": "script:alert(1)"}))
	// F-niltree
	func() {
		defer func() {
			if r := recover(); r != nil {
				fmt.Println("F-niltree: PANIC:", r)
			}
		}()
		root := template.New("root")
		root.VerifParse(`{{define "bad"}}<a href="{{end}}{{define "caller"}}x{{template "bad"}}y{{end}}`)
		var b bytes.Buffer
		e1 := root.ExecuteTemplate(&b, "bad", nil)
		e2 := root.ExecuteTemplate(&b, "caller", nil)
		fmt.Printf("F-niltree: e1=%v e2=%v out=%q\n", e1, e2, b.String())
	}()
}

func TestProbeStaleCallee(t *testing.T) {
	root := template.New("root")
	root.VerifParse(`{{define "h"}}{{if .C}}<a href="{{end}}{{.V}}{{end}}{{define "a"}}{{template "h" .}}{{end}}{{define "b"}}<p>{{template "h" .}}</p>{{end}}`)
	var b bytes.Buffer
	d := map[string]interface{}{"C": false, "V": "<script>alert(1)</script>"}
	e1 := root.ExecuteTemplate(&b, "a", d)
	e2 := root.ExecuteTemplate(&b, "b", d)
	fmt.Printf("STALE-CALLEE: e1=%v\n e2=%v\n out=%q\n", e1, e2, b.String())
}
