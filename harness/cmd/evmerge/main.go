// evmerge merges the per-shard evidence written by package evid:
// counters are summed, label histograms added, and the sets of 64-bit case
// hashes are united so that distinct_nontrivial is a measured number.
package main

import (
	"encoding/binary"
	"encoding/json"
	"fmt"
	"os"
	"path/filepath"
	"sort"
)

type propStats struct {
	Evaluations  int64            `json:"evaluations"`
	NonTrivial   int64            `json:"nontrivial"`
	Skipped      int64            `json:"skipped"`
	Attributed   map[string]int64 `json:"attributed_to_known_findings,omitempty"`
	Labels       map[string]int64 `json:"labels"`
	Samples      []interface{}    `json:"samples"`
	Violations   []interface{}    `json:"violations,omitempty"`
	Exhaustive   bool             `json:"exhaustive,omitempty"`
	HashesCapped bool             `json:"hashes_capped,omitempty"`
	Distinct     int              `json:"distinct_nontrivial"`
}

type shard struct {
	Property string                `json:"property"`
	Shard    int                   `json:"shard"`
	WallS    float64               `json:"wall_s"`
	Props    map[string]*propStats `json:"props"`
	Order    []string              `json:"order"`
}

func main() {
	dir := os.Args[1]
	files, _ := filepath.Glob(filepath.Join(dir, "shard-*.json"))
	sort.Strings(files)
	merged := map[string]*propStats{}
	var order []string
	shards := 0
	maxWall := 0.0
	for _, f := range files {
		b, err := os.ReadFile(f)
		if err != nil {
			fmt.Fprintln(os.Stderr, err)
			os.Exit(2)
		}
		var s shard
		if err := json.Unmarshal(b, &s); err != nil {
			fmt.Fprintln(os.Stderr, f, err)
			os.Exit(2)
		}
		shards++
		if s.WallS > maxWall {
			maxWall = s.WallS
		}
		for _, name := range s.Order {
			p := s.Props[name]
			m := merged[name]
			if m == nil {
				m = &propStats{Labels: map[string]int64{}, Attributed: map[string]int64{}, Exhaustive: true}
				merged[name] = m
				order = append(order, name)
			}
			m.Evaluations += p.Evaluations
			m.NonTrivial += p.NonTrivial
			m.Skipped += p.Skipped
			for k, v := range p.Labels {
				m.Labels[k] += v
			}
			for k, v := range p.Attributed {
				m.Attributed[k] += v
			}
			if len(m.Samples) < 8 {
				for _, x := range p.Samples {
					if len(m.Samples) < 8 {
						m.Samples = append(m.Samples, x)
					}
				}
			}
			m.Violations = append(m.Violations, p.Violations...)
			m.Exhaustive = m.Exhaustive && p.Exhaustive
			m.HashesCapped = m.HashesCapped || p.HashesCapped
		}
	}
	for _, name := range order {
		hf, _ := filepath.Glob(filepath.Join(dir, "shard-*."+name+".hashes"))
		var all []uint64
		for _, f := range hf {
			b, err := os.ReadFile(f)
			if err != nil {
				continue
			}
			for i := 0; i+8 <= len(b); i += 8 {
				all = append(all, binary.LittleEndian.Uint64(b[i:]))
			}
		}
		sort.Slice(all, func(a, b int) bool { return all[a] < all[b] })
		d := 0
		for i := range all {
			if i == 0 || all[i] != all[i-1] {
				d++
			}
		}
		merged[name].Distinct = d
	}
	out := map[string]interface{}{"shards": shards, "max_shard_wall_s": maxWall, "props": merged, "order": order}
	b, _ := json.MarshalIndent(out, "", " ")
	os.Stdout.Write(b)
}
