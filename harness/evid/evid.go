// Package evid is the glue between a property check (a rapid property over a
// JSON-serialisable Case) and the driver in /verif/bin/check: it counts what
// was generated, classifies cases, keeps the (shrunk) failing case and writes
// it as a replay file, and dumps per-shard evidence at process exit.
package evid

import (
	"encoding/binary"
	"encoding/json"
	"flag"
	"fmt"
	"hash/fnv"
	"os"
	"path/filepath"
	"runtime"
	"sort"
	"strconv"
	"strings"
	"sync"
	"sync/atomic"
	"testing"
	"time"

	"pgregory.net/rapid"
)

// BStr is a byte string that survives JSON: it is written as the Go-quoted
// ASCII form of the bytes (so invalid UTF-8, NUL etc. are kept exactly).
type BStr string

func (b BStr) MarshalJSON() ([]byte, error) {
	return json.Marshal(strconv.QuoteToASCII(string(b)))
}

func (b *BStr) UnmarshalJSON(p []byte) error {
	var q string
	if err := json.Unmarshal(p, &q); err != nil {
		return err
	}
	s, err := strconv.Unquote(q)
	if err != nil {
		return fmt.Errorf("BStr: %v in %q", err, q)
	}
	*b = BStr(s)
	return nil
}

// Outcome is what a check function returns for one case.
type Outcome struct {
	Skip       bool     // case gives no claim (e.g. template rejected); counted separately
	NonTrivial bool     // by the property's stated rule
	Key        string   // distinctness key (hashed); empty = JSON of the case
	Labels     []string // classification labels (histogram in the evidence)
	Violation  string   // non-empty: the property is violated, text says how
	Finding    string   // non-empty with Violation: id of the known finding whose signature this violation matches
}

// OK is the zero outcome with a non-triviality flag.
func OK(nontrivial bool, labels ...string) Outcome {
	return Outcome{NonTrivial: nontrivial, Labels: labels}
}

// Viol builds a violating outcome.
func Viol(format string, a ...interface{}) Outcome {
	return Outcome{NonTrivial: true, Violation: fmt.Sprintf(format, a...)}
}

type propStats struct {
	Evaluations  int64            `json:"evaluations"`
	NonTrivial   int64            `json:"nontrivial"`
	Skipped      int64            `json:"skipped"`
	Attributed   map[string]int64 `json:"attributed_to_known_findings,omitempty"`
	Labels       map[string]int64 `json:"labels"`
	Samples      []interface{}    `json:"samples"`
	Violations   []violation      `json:"violations,omitempty"`
	Exhaustive   bool             `json:"exhaustive,omitempty"`
	HashesCapped bool             `json:"hashes_capped,omitempty"`
	hashes       map[uint64]struct{}
	lastFail     interface{}
	lastFailMsg  string
}

type violation struct {
	Prop   string `json:"prop"`
	Replay string `json:"replay"`
	Msg    string `json:"msg"`
}

var (
	mu       sync.Mutex
	props    = map[string]*propStats{}
	order    []string
	start    = time.Now()
	hashCap  = 400000
	maxSamp  = 6
	knownSet map[string]string // finding id -> status, for this property
	propID   string
)

func stats(name string) *propStats {
	p := props[name]
	if p == nil {
		p = &propStats{Labels: map[string]int64{}, Attributed: map[string]int64{}, hashes: map[uint64]struct{}{}}
		props[name] = p
		order = append(order, name)
	}
	return p
}

// Root is /verif (or $VERIF_ROOT).
func Root() string {
	if r := os.Getenv("VERIF_ROOT"); r != "" {
		return r
	}
	return "/verif"
}

// Tier is "quick" or "thorough".
func Tier() string {
	if os.Getenv("VERIF_TIER") == "thorough" {
		return "thorough"
	}
	return "quick"
}

// Shard returns (index, count).
func Shard() (int, int) {
	i, _ := strconv.Atoi(os.Getenv("VERIF_SHARD"))
	n, _ := strconv.Atoi(os.Getenv("VERIF_NSHARDS"))
	if n <= 0 {
		n = 1
	}
	return i, n
}

// Checks returns the base number of rapid cases for this shard (VERIF_CHECKS).
func Checks() int {
	n, _ := strconv.Atoi(os.Getenv("VERIF_CHECKS"))
	if n <= 0 {
		n = 2000
	}
	return n
}

// Finding describes one entry of /verif/known_findings.json.
type Finding struct {
	Property string `json:"property"`
	ID       string `json:"id"`
	Status   string `json:"status"` // "known" or "fixed"
	Replay   string `json:"replay"` // path relative to /verif
	What     string `json:"what"`
	Commit   string `json:"commit,omitempty"`
}

// LoadFindings reads known_findings.json and returns the entries of property id.
func LoadFindings(id string) []Finding {
	var all struct {
		Findings []Finding `json:"findings"`
	}
	b, err := os.ReadFile(filepath.Join(Root(), "known_findings.json"))
	if err != nil {
		return nil
	}
	if err := json.Unmarshal(b, &all); err != nil {
		panic("known_findings.json: " + err.Error())
	}
	var out []Finding
	for _, f := range all.Findings {
		if f.Property == id {
			out = append(out, f)
		}
	}
	return out
}

// Init must be called from TestMain with the property id.
func Init(id string) {
	propID = id
	knownSet = map[string]string{}
	for _, f := range LoadFindings(id) {
		knownSet[f.ID] = f.Status
	}
	if v, _ := strconv.Atoi(os.Getenv("VERIF_HASHCAP")); v > 0 {
		hashCap = v
	}
}

// IsKnown reports whether finding id is listed as a known (unrepaired) finding of this property.
func IsKnown(id string) bool { return knownSet[id] == "known" }

func hashKey(k string) uint64 {
	h := fnv.New64a()
	h.Write([]byte(k))
	return h.Sum64()
}

func keyOf(c interface{}, o Outcome) string {
	if o.Key != "" {
		return o.Key
	}
	b, _ := json.Marshal(c)
	return string(b)
}

// Record accounts for one evaluated case. It returns a non-empty message if
// the case is a violation that must fail the test.
func Record(prop string, c interface{}, o Outcome) string {
	mu.Lock()
	defer mu.Unlock()
	p := stats(prop)
	p.Evaluations++
	for _, l := range o.Labels {
		p.Labels[l]++
	}
	if o.Skip {
		p.Skipped++
		return ""
	}
	if o.Violation != "" {
		if o.Finding != "" && IsKnown(o.Finding) {
			p.Attributed[o.Finding]++
			return ""
		}
		p.lastFail = c
		p.lastFailMsg = o.Violation
		return o.Violation
	}
	if o.NonTrivial {
		p.NonTrivial++
		h := hashKey(keyOf(c, o))
		if _, seen := p.hashes[h]; !seen {
			if len(p.hashes) < hashCap {
				p.hashes[h] = struct{}{}
			} else {
				p.HashesCapped = true
			}
			// keep the first few and then exponentially spaced samples
			n := int64(len(p.hashes))
			if len(p.Samples) < maxSamp && (n <= 2 || n&(n-1) == 0) {
				p.Samples = append(p.Samples, c)
			}
		}
	}
	return ""
}

// SetExhaustive marks a sub-property as having enumerated its finite domain completely.
func SetExhaustive(prop string) {
	mu.Lock()
	defer mu.Unlock()
	stats(prop).Exhaustive = true
}

// Label adds to a label counter without recording a case.
func Label(prop, label string, n int64) {
	mu.Lock()
	defer mu.Unlock()
	stats(prop).Labels[label] += n
}

func replayDir() string {
	if d := os.Getenv("VERIF_FOUND_DIR"); d != "" {
		return d
	}
	return filepath.Join(Root(), "replays", propID, "found")
}

// ReplayFile is the on-disk form of a failing case.
type ReplayFile struct {
	Property string          `json:"property"`
	Prop     string          `json:"prop"`
	Msg      string          `json:"msg"`
	Case     json.RawMessage `json:"case"`
}

// SaveFailure writes the last failing case of prop as a replay file and returns its path.
func SaveFailure(prop string) string {
	mu.Lock()
	defer mu.Unlock()
	p := stats(prop)
	if p.lastFail == nil {
		return ""
	}
	cb, err := json.MarshalIndent(p.lastFail, "  ", " ")
	if err != nil {
		cb, _ = json.Marshal(fmt.Sprintf("%#v", p.lastFail))
	}
	rf := ReplayFile{Property: propID, Prop: prop, Msg: p.lastFailMsg, Case: cb}
	b, _ := json.MarshalIndent(rf, "", " ")
	dir := replayDir()
	os.MkdirAll(dir, 0o755)
	path := filepath.Join(dir, fmt.Sprintf("%s-%016x.json", prop, hashKey(string(cb))))
	if err := os.WriteFile(path, append(b, '\n'), 0o644); err != nil {
		path = ""
	}
	p.Violations = append(p.Violations, violation{Prop: prop, Replay: path, Msg: p.lastFailMsg})
	return path
}

// RunProp runs a generated property: gen draws a case, check judges it.
// weight scales the number of rapid cases relative to VERIF_CHECKS.
func RunProp[C any](t *testing.T, prop string, weight float64, gen func(*rapid.T) C, check func(C) Outcome) {
	t.Helper()
	n := int(float64(Checks()) * weight)
	if n < 1 {
		n = 1
	}
	flag.Set("rapid.checks", strconv.Itoa(n))
	defer func() {
		if t.Failed() {
			path := SaveFailure(prop)
			fmt.Printf("FOUND property=%s prop=%s replay=%s\n", propID, prop, path)
		}
	}()
	rapid.Check(t, func(rt *rapid.T) {
		c := gen(rt)
		setCurrent(prop, c)
		o := safeCheck(check, c)
		if msg := Record(prop, c, o); msg != "" {
			rt.Fatalf("%s", msg)
		}
	})
}

// RunEnum runs check over an explicitly enumerated list of cases (deterministic part of a property).
func RunEnum[C any](t *testing.T, prop string, next func() (C, bool), check func(C) Outcome) {
	t.Helper()
	for {
		c, ok := next()
		if !ok {
			return
		}
		setCurrent(prop, c)
		o := safeCheck(check, c)
		if msg := Record(prop, c, o); msg != "" {
			if os.Getenv("VERIF_TRIAGE") != "" {
				// development aid: list every violating case of an enumeration instead of stopping at the first
				fmt.Printf("TRIAGE %s\n", oneLine(msg))
				continue
			}
			path := SaveFailure(prop)
			fmt.Printf("FOUND property=%s prop=%s replay=%s\n", propID, prop, path)
			t.Fatalf("%s", msg)
		}
	}
}

// PanicAsViolation controls whether a panic inside check is a violation (default) or re-raised.
var PanicAsViolation = true

func safeCheck[C any](check func(C) Outcome, c C) (o Outcome) {
	if PanicAsViolation {
		defer func() {
			if r := recover(); r != nil {
				o = Outcome{NonTrivial: true, Violation: fmt.Sprintf("panic in check: %v", r)}
			}
		}()
	}
	return check(c)
}

// Replayer re-runs one sub-property on a stored case.
type Replayer struct {
	Prop string
	Run  func(raw json.RawMessage) (string, error)
}

// R wraps a typed check function for Replay.
func R[C any](prop string, check func(C) Outcome) Replayer {
	return Replayer{prop, func(raw json.RawMessage) (string, error) {
		var c C
		if err := json.Unmarshal(raw, &c); err != nil {
			return "", err
		}
		// a replay bypasses the known-finding attribution: it reports the raw verdict
		return safeCheck(check, c).Violation, nil
	}}
}

// Replay runs the checks on every replay file selected for this run:
// $VERIF_REPLAY (one file) or every committed file listed in known_findings.json
// for this property.
func Replay(t *testing.T, rs ...Replayer) {
	one := os.Getenv("VERIF_REPLAY")
	if one != "" {
		msg, err := replayOne(one, rs)
		if err != nil {
			t.Fatalf("replay %s: %v", one, err)
		}
		if msg != "" {
			fmt.Printf("REPLAY-FAIL file=%s msg=%s\n", one, oneLine(msg))
			t.Fail()
		} else {
			fmt.Printf("REPLAY-PASS file=%s\n", one)
		}
		return
	}
	for _, f := range LoadFindings(propID) {
		if f.Replay == "" {
			if f.Status == "known" {
				// a recorded finding whose reproduction takes too long for a replay tier (see its signature)
				fmt.Printf("KNOWN-FINDING: property=%s %s [%s] (not re-run)\n", propID, f.What, f.ID)
			}
			continue
		}
		path := filepath.Join(Root(), f.Replay)
		msg, err := replayOne(path, rs)
		if err != nil {
			fmt.Printf("REPLAY-ERROR file=%s err=%s\n", path, oneLine(err.Error()))
			t.Fail()
			continue
		}
		switch {
		case f.Status == "known" && msg != "":
			fmt.Printf("KNOWN-FINDING: property=%s %s [%s] replay=%s\n", propID, f.What, f.ID, f.Replay)
		case f.Status == "known":
			fmt.Printf("NOTE: known finding %s no longer reproduces (replay %s passes)\n", f.ID, f.Replay)
		case f.Status == "fixed" && msg != "":
			fmt.Printf("REPLAY-FAIL file=%s msg=%s\n", path, oneLine(msg))
			t.Fail()
		}
	}
	// cases on which the machinery once raised a false alarm (DESIGN.md, Appendix A): they must stay silent
	fas, _ := filepath.Glob(filepath.Join(Root(), "replays", propID, "fa-*.json"))
	sort.Strings(fas)
	for _, path := range fas {
		msg, err := replayOne(path, rs)
		if err != nil {
			fmt.Printf("REPLAY-ERROR file=%s err=%s\n", path, oneLine(err.Error()))
			t.Fail()
		} else if msg != "" {
			fmt.Printf("REPLAY-FAIL file=%s msg=%s\n", path, oneLine(msg))
			t.Fail()
		}
	}
}

func replayOne(path string, rs []Replayer) (string, error) {
	b, err := os.ReadFile(path)
	if err != nil {
		return "", err
	}
	var rf ReplayFile
	if err := json.Unmarshal(b, &rf); err != nil {
		return "", err
	}
	for _, r := range rs {
		if r.Prop == rf.Prop {
			return r.Run(rf.Case)
		}
	}
	return "", fmt.Errorf("unknown prop %q", rf.Prop)
}

func oneLine(s string) string {
	s = strings.ReplaceAll(s, "\n", "\\n")
	if len(s) > 600 {
		s = s[:600] + "..."
	}
	return s
}

// Flush writes the shard evidence; call at the end of TestMain.
func Flush() {
	dir := os.Getenv("VERIF_OUT_DIR")
	if dir == "" {
		return
	}
	mu.Lock()
	defer mu.Unlock()
	i, n := Shard()
	type out struct {
		Property string                `json:"property"`
		Shard    int                   `json:"shard"`
		NShards  int                   `json:"nshards"`
		WallS    float64               `json:"wall_s"`
		Props    map[string]*propStats `json:"props"`
		Order    []string              `json:"order"`
		Distinct map[string]int        `json:"distinct_in_shard"`
	}
	o := out{Property: propID, Shard: i, NShards: n, WallS: time.Since(start).Seconds(), Props: props, Order: order, Distinct: map[string]int{}}
	os.MkdirAll(dir, 0o755)
	for name, p := range props {
		o.Distinct[name] = len(p.hashes)
		hs := make([]uint64, 0, len(p.hashes))
		for h := range p.hashes {
			hs = append(hs, h)
		}
		sort.Slice(hs, func(a, b int) bool { return hs[a] < hs[b] })
		buf := make([]byte, 8*len(hs))
		for k, h := range hs {
			binary.LittleEndian.PutUint64(buf[8*k:], h)
		}
		os.WriteFile(filepath.Join(dir, fmt.Sprintf("shard-%d.%s.hashes", i, name)), buf, 0o644)
	}
	b, _ := json.MarshalIndent(o, "", " ")
	os.WriteFile(filepath.Join(dir, fmt.Sprintf("shard-%d.json", i)), b, 0o644)
}

// Main is the standard TestMain body.
// ---------- watchdog: a case that never finishes or eats the memory ----------

type current struct {
	prop  string
	c     interface{}
	start time.Time
}

var cur atomic.Value // current

// StuckAsViolation: for properties about termination (C08) a stuck case is a violation; elsewhere the run is
// inconclusive (the driver reports trouble), but the case is saved either way.
var StuckAsViolation = false

func setCurrent(prop string, c interface{}) { cur.Store(current{prop, c, time.Now()}) }

func envInt(name string, def int) int {
	if v, err := strconv.Atoi(os.Getenv(name)); err == nil && v > 0 {
		return v
	}
	return def
}

func watchdog() {
	maxS, maxGB := envInt("VERIF_STUCK_S", 180), envInt("VERIF_HEAP_GB", 5)
	var ms runtime.MemStats
	for range time.Tick(500 * time.Millisecond) {
		v, ok := cur.Load().(current)
		if !ok {
			continue
		}
		runtime.ReadMemStats(&ms)
		why := ""
		if time.Since(v.start) > time.Duration(maxS)*time.Second {
			why = fmt.Sprintf("one case has been running for more than %d s", maxS)
		} else if ms.HeapAlloc > uint64(maxGB)<<30 {
			why = fmt.Sprintf("the heap grew beyond %d GiB while one case was running", maxGB)
		}
		if why == "" {
			continue
		}
		cb, err := json.MarshalIndent(v.c, "  ", " ")
		if err != nil {
			cb, _ = json.Marshal(fmt.Sprintf("%#v", v.c))
		}
		rf := ReplayFile{Property: propID, Prop: v.prop, Msg: "STUCK: " + why, Case: cb}
		b, _ := json.MarshalIndent(rf, "", " ")
		dir := replayDir()
		os.MkdirAll(dir, 0o755)
		path := filepath.Join(dir, fmt.Sprintf("stuck-%s-%016x.json", v.prop, hashKey(string(cb))))
		os.WriteFile(path, append(b, '\n'), 0o644)
		if StuckAsViolation {
			fmt.Printf("FOUND property=%s prop=%s replay=%s\n", propID, v.prop, path)
			os.Exit(1)
		}
		fmt.Printf("STUCK property=%s prop=%s case=%s (%s)\n", propID, v.prop, path, why)
		os.Exit(3)
	}
}

func Main(m *testing.M, id string) {
	Init(id)
	go watchdog()
	code := m.Run()
	Flush()
	os.Exit(code)
}
